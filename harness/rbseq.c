/* C07 / C11(ring part): differential test of the ring buffer against a
 * sequential FIFO model, single-threaded, asan flavour + guard zones.
 *
 * --mode normal    : capacity contract + loss-free FIFO (C07)
 * --mode overwrite : newest-suffix oracle (C11)
 */
#include "vp.h"
#include <qb/qbdefs.h>
#include <qb/qbrb.h>

#define PAGE 4096
#define OVERHEAD 16

struct mchunk { uint32_t id; uint32_t len; uint32_t prev; uint8_t cls; uint8_t droppable; };
static struct mchunk *dq; static size_t dq_cap, dq_head, dq_n;

static void dq_push(struct mchunk c)
{
	if (dq_head + dq_n >= dq_cap) {
		if (dq_head > 0) { memmove(dq, dq + dq_head, dq_n * sizeof *dq); dq_head = 0; }
		if (dq_n >= dq_cap) { dq_cap = dq_cap ? dq_cap * 2 : 1024; dq = realloc(dq, dq_cap * sizeof *dq); }
	}
	dq[dq_head + dq_n++] = c;
}
#define DQ(i) dq[dq_head + (i)]
static void dq_pop(size_t n) { dq_head += n; dq_n -= n; }

static const uint32_t MAGICS[3] = { 0xA1A1A1A1u, 0xD0D0D0D0u, 0xA110CED0u };

/* deterministic payload of chunk (id, cls, len) */
static void gen(uint8_t *b, uint32_t id, uint8_t cls, uint32_t len, uint32_t prevlen)
{
	uint64_t x = vp_mix(vp.seed * 1315423911u + id);
	if (len < 4) { for (uint32_t i = 0; i < len; i++) b[i] = (uint8_t)(id + i * 37); return; }
	switch (cls) {
	case 0:
		for (uint32_t i = 0; i < len; i++) { if ((i & 7) == 0) x = vp_mix(x); b[i] = (uint8_t)(x >> ((i & 7) * 8)); }
		memcpy(b, &id, 4);
		break;
	case 1:
		for (uint32_t i = 0; i < len; i++) { uint32_t m = MAGICS[(id + i / 4) % 3]; b[i] = ((uint8_t *)&m)[i & 3]; }
		memcpy(b + len - 4, &id, 4);   /* unique id at the end: the front stays a header look-alike */
		break;
	case 2: memset(b, 0, len); memcpy(b + len - 4, &id, 4); break;
	default: /* image of a chunk header: [len][MAGIC] repeated */
		for (uint32_t i = 0; i < len; i++) {
			uint32_t w = ((i / 4) & 1) ? 0xA1A1A1A1u : (prevlen + (i / 8));
			b[i] = ((uint8_t *)&w)[i & 3];
		}
		memcpy(len >= 12 ? b + 8 : b + len - 4, &id, 4);
		break;
	}
}

static uint32_t pick_size(vprng_t *r, int *cls)
{
	static const uint32_t fixed[] = { 1, 2, 15, 16, 17, 100, PAGE - 14, PAGE - 13, PAGE - 12, PAGE - 11, PAGE - 1,
		PAGE, PAGE + 1, 2 * PAGE - 14, 2 * PAGE - 13, 2 * PAGE - 12, 2 * PAGE, 2 * PAGE + 1, 3 * PAGE - 13,
		65536 - 14, 65536 - 13, 65536 - 12, 65536, 65537 };
	unsigned n = sizeof fixed / sizeof fixed[0];
	unsigned k = vp_u(r, n + 8);
	if (k < n) { *cls = (int)k; return fixed[k]; }
	*cls = (int)n + (int)(k - n) / 3;
	switch ((k - n) % 4) {
	case 0: return 1 + vp_u(r, 200);
	case 1: return 1 + vp_u(r, 3 * PAGE);
	case 2: return 1 + vp_u(r, 20 * PAGE);
	default: return 1 + vp_u(r, 300000);
	}
}

static uint32_t pick_len(vprng_t *r, uint32_t S, int small_bias)
{
	switch (vp_u(r, small_bias ? 14 : 10)) {
	case 0: return 0;
	case 1: return 1 + vp_u(r, 3);
	case 2: return S;
	case 3: return S > 0 ? S - 1 : 0;
	case 4: return S / 2 + vp_u(r, 3);
	case 5: return S > 40 ? S - 16 - vp_u(r, 24) : vp_u(r, S + 1);
	case 6: return vp_u(r, S + 1);
	case 7: return (S / 3) | 1;
	case 8: return S + 1 + vp_u(r, 64);            /* above the contract: outcome not judged, consistency is */
	default: return vp_u(r, (S < 64 ? S : 64) + 1);  /* many small chunks */
	}
}

static uint8_t *wbuf, *ebuf, *bigbuf; static size_t wbuf_sz;
static void need(size_t n)
{
	if (n + 8 > wbuf_sz) { wbuf_sz = n + 65536; wbuf = realloc(wbuf, wbuf_sz); ebuf = realloc(ebuf, wbuf_sz); bigbuf = realloc(bigbuf, wbuf_sz); }
}
/* exact-size heap blocks (so that ASan sees one byte too many) for small sizes,
 * one persistent block for big ones (each big malloc is an mmap under ASan) */
#define EXACT_MAX 16384
static uint8_t *rd_alloc(size_t n) { if (n > EXACT_MAX) { need(n); return bigbuf; } return malloc(n ? n : 1); }
static void rd_free(uint8_t *p) { if (p && p != bigbuf) free(p); }

static char trace[16000]; static size_t trace_n;
#define TR(...) do { if (trace_n < (getenv("VP_TRACE") ? sizeof trace - 40 : 600)) trace_n += (size_t)snprintf(trace + trace_n, 40, __VA_ARGS__); } while (0)
static long n_ambiguous;
static long n_wraps, n_refusals, n_accepts, n_reads, n_peeks, n_enobufs, n_empty, n_drops, n_zero, n_bare_reclaims;

static int run_case(long kase, int overwrite)
{
	vprng_t r; vp_seed(&r, vp.seed, (uint64_t)kase);
	int scls; uint32_t S = pick_size(&r, &scls);
	int use_sem = vp_chance(&r, 1, 3); int sem_ahead = 0;
	uint32_t flags = QB_RB_FLAG_CREATE | (overwrite ? QB_RB_FLAG_OVERWRITE : 0);
	if (!use_sem) flags |= QB_RB_FLAG_NO_SEMAPHORE;
	if (vp_chance(&r, 1, 4)) flags |= QB_RB_FLAG_SHARED_PROCESS;
	char name[64]; snprintf(name, sizeof name, "vp-rbseq-%d-%ld", (int)getpid(), kase);
	vp_desc("S=%u flags=0x%x", S, flags);
	qb_ringbuffer_t *rb = qb_rb_open(name, S, flags, 0);
	if (!rb) { vp_violation("rb:open-failed", "qb_rb_open(S=%u) failed errno=%d", S, errno); return 0; }
	dq_head = dq_n = 0; trace_n = 0; trace[0] = 0;
	uint32_t next_id = 1, prevlen = 0;
	uint64_t real = ((uint64_t)S + 13 + PAGE - 1) / PAGE * PAGE, words_written = 0;
	int small_bias = vp_chance(&r, 1, 2);
	int tiny_ok = vp_chance(&r, 1, 5);
	int nops = (S > 100000) ? 120 : 300 + (int)vp_u(&r, 400);
	int write_bias = 3 + (int)vp_u(&r, 5); /* of 10 */
	int saw_refusal = 0, saw_wrap = 0;
	uint64_t h = vp_hash_u64(scls, overwrite);

	for (int op = 0; op < nops; op++) {
		int doing_write = (int)vp_u(&r, 10) < write_bias;
		if (op % 97 == 96) write_bias = 1 + (int)vp_u(&r, 9);  /* alternate fill / drain phases */
		ssize_t free_b = qb_rb_space_free(rb), used_b = qb_rb_space_used(rb);
		if (doing_write) {
			uint32_t len = pick_len(&r, S, small_bias);
			if (overwrite && len > S) len = S;
			if (overwrite && len < 4 && !tiny_ok && S >= 8) len += 4;  /* see the ambiguity note at the read side */
			uint8_t cls = (uint8_t)vp_u(&r, 4);
			uint32_t id = next_id;
			need(len);
			gen(wbuf, id, cls, len, prevlen);
			/* model: must this write be accepted? */
			uint64_t sum = (uint64_t)len + OVERHEAD;
			for (size_t i = 0; i < dq_n; i++) sum += (uint64_t)DQ(i).len + OVERHEAD;
			int must = (len <= S) && (dq_n == 0 || sum <= S);
			int via_alloc = vp_chance(&r, 1, 3);
			uint32_t clen = len;
			ssize_t res;
			vp_desc("S=%u flags=0x%x op=%d write len=%u alloc=%d held=%zu", S, flags, op, len, via_alloc, dq_n);
			if (via_alloc) {
				errno = 0;
				uint8_t *p = qb_rb_chunk_alloc(rb, len);
				if (!p) res = -errno;
				else {
					if (len > 0 && vp_chance(&r, 1, 3)) clen = vp_u(&r, len + 1); /* commit less than allocated */
					gen(wbuf, id, cls, clen, prevlen);
					uint32_t half = clen / 2;
					memcpy(p, wbuf, half);
					memcpy(p + half, wbuf + half, clen - half);
					res = qb_rb_chunk_commit(rb, clen);
					if (res == 0) res = clen;
				}
			} else {
				res = qb_rb_chunk_write(rb, wbuf, len);
			}
			TR("%s%u:%s ", via_alloc ? "a" : "w", len, res >= 0 ? "ok" : "EAGAIN");
			if (res >= 0) {
				if ((uint32_t)res != clen)
					vp_violation("rb:write-returned-wrong-length", "write len=%u returned %zd", clen, res);
				if (overwrite) {
					/* chunks that no longer need to be retained: everything older than the
					 * longest suffix (incl. the new chunk) with sum(len+16) <= S */
					/* space was reserved for the allocated length, even if less gets committed */
					uint64_t s2 = (uint64_t)len + OVERHEAD; size_t keep = 0;
					for (size_t i = dq_n; i-- > 0;) {
						s2 += (uint64_t)DQ(i).len + OVERHEAD;
						if (s2 > S) break;
						keep++;
					}
					for (size_t i = 0; i + keep < dq_n; i++) DQ(i).droppable = 1;
				}
				struct mchunk c = { id, clen, prevlen, cls, 0 };
				dq_push(c); next_id++; prevlen = clen; n_accepts++;
				if (clen == 0) n_zero++;
				uint64_t w0 = words_written / (real / 4);
				words_written += 2 + (clen + 3) / 4;
				if (words_written / (real / 4) != w0) { n_wraps++; saw_wrap = 1; }
				ssize_t f2 = qb_rb_space_free(rb);
				if (!overwrite && f2 > free_b)
					vp_violation("rb:space-free-grew-on-write", "free %zd -> %zd after write len=%u", free_b, f2, clen);
			} else {
				n_refusals++; saw_refusal = 1;
				if (overwrite && len <= S)
					vp_violation("rb:overwrite-write-failed", "overwrite ring S=%u refused len=%u with %zd", S, len, res);
				if (!overwrite) {
					if (must)
						vp_violation(dq_n == 0 ? "rb:refused-on-empty" : "rb:refused-while-fits",
							     "S=%u len=%u held=%zu sum=%llu refused with %zd", S, len, dq_n,
							     (unsigned long long)sum, res);
					if (res != -EAGAIN)
						vp_violation("rb:refusal-not-eagain", "refused write returned %zd", res);
					if (qb_rb_space_free(rb) != free_b || qb_rb_space_used(rb) != used_b)
						vp_violation("rb:refused-write-changed-state", "free %zd->%zd used %zd->%zd", free_b,
							     qb_rb_space_free(rb), used_b, qb_rb_space_used(rb));
				}
			}
			if (use_sem && !overwrite) {
				ssize_t cu = qb_rb_chunks_used(rb);
				if (sem_ahead ? cu < (ssize_t)dq_n : cu != (ssize_t)dq_n)
					vp_violation("rb:chunks-used-mismatch", "chunks_used=%zd model=%zu", cu, dq_n);
			}
			continue;
		}
		/* ---- read side ---- */
		if (!overwrite && vp_chance(&r, 1, 14)) {
			/* qb_rb_chunk_reclaim() on its own: discards the oldest chunk without looking at it (no peek before), or does nothing
			 * on an empty ring.  With the notifier the count of the semaphore is then ahead of the chunks: a later read gets past
			 * the wait on a drained ring and must still find it empty, whatever the free space holds */
			vp_desc("S=%u flags=0x%x op=%d bare-reclaim held=%zu", S, flags, op, dq_n);
			qb_rb_chunk_reclaim(rb); n_bare_reclaims++; TR("rcl ");
			if (dq_n > 0) { dq_pop(1); if (use_sem) sem_ahead++; }
			continue;
		}
		int kind = (int)vp_u(&r, 10);   /* 0-5 read, 6 short read, 7-9 peek(+reclaim) */
		if (kind == 6 && !(dq_n > 0 && DQ(0).len > 0)) kind = 0;
		if (kind == 6 && overwrite) kind = 0; /* with drops the head is not known beforehand */
		if (kind == 6) {
			uint32_t hl = DQ(0).len; size_t bl = vp_u(&r, hl);
			uint8_t *b = rd_alloc(bl);
			vp_desc("S=%u flags=0x%x op=%d shortread buf=%zu head=%u", S, flags, op, bl, hl);
			ssize_t res = qb_rb_chunk_read(rb, b, bl, 0);
			rd_free(b);
			n_enobufs++; TR("short%zu:%zd ", bl, res);
			if (res != -ENOBUFS)
				vp_violation("rb:short-read-not-enobufs", "read(buf=%zu) of chunk len=%u returned %zd", bl, hl, res);
			if (qb_rb_space_free(rb) != free_b)
				vp_violation("rb:short-read-changed-state", "free %zd -> %zd", free_b, qb_rb_space_free(rb));
			continue;
		}
		int peek = kind >= 7;
		size_t bl = 0; uint8_t *b = NULL; void *pp = NULL; ssize_t res;
		if (!peek) {
			/* exact-size heap block when the head is known (ASan sees one byte too many) */
			bl = (dq_n > 0 && !overwrite) ? DQ(0).len + (vp_chance(&r, 1, 4) ? vp_u(&r, 64) : 0) : (size_t)S + 128;
			if (overwrite) { bl = 0; for (size_t i = 0; i < dq_n; i++) if (DQ(i).len > bl) bl = DQ(i).len; }
			b = rd_alloc(bl);
			vp_desc("S=%u flags=0x%x op=%d read buf=%zu held=%zu", S, flags, op, bl, dq_n);
			res = qb_rb_chunk_read(rb, b, bl, 0);
			n_reads++;
		} else {
			vp_desc("S=%u flags=0x%x op=%d peek held=%zu", S, flags, op, dq_n);
			res = qb_rb_chunk_peek(rb, &pp, 0);
			n_peeks++;
		}
		TR("%s:%zd ", peek ? "peek" : "rd", res);
		int empty_result = peek ? (res < 0 || (res == 0 && dq_n == 0) ) : (res < 0);
		if (peek && res == 0 && dq_n > 0) {
			/* 0 from peek is ambiguous (timeout vs zero-length chunk); resolve with the model */
			size_t j; for (j = 0; j < dq_n; j++) if (DQ(j).len == 0 || !DQ(j).droppable) break;
			empty_result = !(j < dq_n && DQ(j).len == 0);
		}
		if (empty_result) {
			n_empty++;
			if (!peek && res != -ETIMEDOUT)
				vp_diag("rb:empty-read-code-not-etimedout", "read on empty ring returned %zd (the header only promises \"or error\")", res);
			for (size_t i = 0; i < dq_n; i++)
				if (!DQ(i).droppable) {
					vp_violation(overwrite ? "rb:overwrite-lost-retained-chunk" : "rb:chunk-lost",
						     "%s reports empty (%zd) but model holds %zu chunks (oldest id=%u len=%u)",
						     peek ? "peek" : "read", res, dq_n, DQ(i).id, DQ(i).len);
					break;
				}
			n_drops += (long)dq_n;
			dq_pop(dq_n);
			rd_free(b);
			continue;
		}
		/* a chunk came back: find it in the model */
		uint8_t *got = peek ? (uint8_t *)pp : b;
		size_t j; int found = 0;
		int absurd = (uint64_t)res > 2 * real;
		if (!absurd) need((size_t)res);
		uint8_t *exp = ebuf;
		int lenmatch = 0; size_t diffat = 0;
		for (j = 0; j < dq_n && !absurd; j++) {
			if (DQ(j).len == (uint32_t)res) {
				gen(exp, DQ(j).id, DQ(j).cls, DQ(j).len, DQ(j).prev);
				if (memcmp(got, exp, (size_t)res) == 0) {
					if (overwrite && res < 4) {
						/* no room for a unique id: if another retained candidate matches too, the
						 * observation cannot be attributed; stop judging this ring (counted) */
						for (size_t j2 = j + 1; j2 < dq_n && DQ(j2 - 1).droppable; j2++)
							if (DQ(j2).len == (uint32_t)res) {
								gen(exp, DQ(j2).id, DQ(j2).cls, DQ(j2).len, DQ(j2).prev);
								if (memcmp(got, exp, (size_t)res) == 0) { n_ambiguous++; rd_free(b); qb_rb_close(rb); return 0; }
							}
					}
					found = 1; break;
				}
				if (!lenmatch) { lenmatch = 1; while (diffat < (size_t)res && got[diffat] == exp[diffat]) diffat++; }
			}
			if (!overwrite || !DQ(j).droppable) break;
		}
		if (!found) {
			if (lenmatch && !overwrite)
				vp_violation("rb:payload-mismatch", "%s chunk id=%u len=%zd differs at byte %zu", peek ? "peek" : "read",
					     DQ(0).id, res, diffat);
			else
				vp_violation(dq_n == 0 ? "rb:read-from-empty-returned-chunk" :
					     overwrite ? "rb:overwrite-not-a-retained-suffix" : "rb:fifo-mismatch",
					     "%s returned len=%zd (lenmatch=%d); model oldest id=%u len=%u held=%zu", peek ? "peek" : "read",
					     res, lenmatch, dq_n ? DQ(0).id : 0, dq_n ? DQ(0).len : 0, dq_n);
			rd_free(b);
			qb_rb_close(rb);
			return 0;
		}
		if (j > 0) { n_drops += (long)j; }
		if (peek) {
			if (vp_chance(&r, 1, 3) && !use_sem) {
				/* peek again: must be the same chunk (no consumption) */
				void *p2 = NULL; ssize_t r2 = qb_rb_chunk_peek(rb, &p2, 0);
				if (r2 != res || p2 != pp)
					vp_violation("rb:peek-consumed", "second peek returned %zd/%p after %zd/%p", r2, p2, res, pp);
			}
			dq_pop(j);
			if (vp_chance(&r, 3, 4) || use_sem) { qb_rb_chunk_reclaim(rb); dq_pop(1); }
		} else {
			dq_pop(j + 1);
		}
		ssize_t f2 = qb_rb_space_free(rb);
		if (!overwrite && f2 < free_b)
			vp_violation("rb:space-free-shrank-on-read", "free %zd -> %zd", free_b, f2);
		rd_free(b);
	}
	if (getenv("VP_TRACE")) fprintf(stderr, "TRACE case=%ld S=%u flags=%x: %s\n", kase, S, flags, trace);
	h = vp_hash_u64(h, (uint64_t)saw_refusal * 2 + (uint64_t)saw_wrap);
	h = vp_hash_u64(h, words_written % 16);
	if (saw_wrap || saw_refusal) vp_distinct(h);
	if (kase % 997 == 0)
		vp_sample("case=%ld S=%u flags=0x%x ops=%d accepted=%u wraps=%d refusal=%d first-ops: %s", kase, S, flags, nops,
			  next_id - 1, saw_wrap, saw_refusal, trace);
	qb_rb_close(rb);
	return 0;
}

int main(int argc, char **argv)
{
	vp_init(argc, argv);
	int overwrite = strcmp(vp_arg("--mode", "normal"), "overwrite") == 0;
	for (long k = vp.case_from; k < vp.case_to; k++) {
		vp_begin_case(k);
		run_case(k, overwrite);
	}
	vp_count("writes_accepted", n_accepts); vp_count("writes_refused", n_refusals);
	vp_count("reads", n_reads); vp_count("peeks", n_peeks); vp_count("short_reads", n_enobufs);
	vp_count("empty_results", n_empty); vp_count("wraparounds", n_wraps);
	vp_count("reclaims_without_a_peek", n_bare_reclaims);
	vp_count("overwritten_chunks", n_drops); vp_count("zero_length_chunks", n_zero); vp_count("rings_abandoned_ambiguous_tiny_chunk", n_ambiguous);
	vp_finish();
	return 0;
}
