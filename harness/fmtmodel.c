/* C13: log line formatting bounded by the line limit and as specified.
 *  --mode direct : qb_log_target_format() with exact-size heap buffers vs a reference formatter
 *  --mode calls  : real log calls (qb_log_from_external_source) to a custom and a file target
 */
#include "vp.h"
#include <time.h>
#include <sys/stat.h>
#include <qb/qbdefs.h>
#include <qb/qblog.h>
#include <qb/qbutil.h>

#define NAME "vp-log-ident-0123456789-abcdefghij"
static const char *PRIO[] = { "emerg", "alert", "crit", "error", "warning", "notice", "info", "debug", "trace" };

static char hostname_[256];
static long n_judged, n_equal, n_safety_only, n_trunc, n_ellipsis, n_calls, n_delivered, n_file_lines, n_ctl_rejected;

static const char *tagfn(uint32_t tags)
{
	static char b[32];
	if (tags == 0) return "none";
	snprintf(b, sizeof b, "T%u", tags);
	return b;
}

/* exact-size heap copy: one byte too many read by the library is an ASan report */
static char *hdup(const char *s) { size_t n = strlen(s) + 1; char *p = malloc(n); memcpy(p, s, n); return p; }

/* ---- format generation ---------------------------------------------- */
struct seg { int lit; char text[700]; char d; int ralign; int width; /* -1 none */ };
#define MAXSEG 24
struct fmtdesc { int nseg; struct seg s[MAXSEG]; int judged; char cls[64]; char text[6000]; };

static const char KNOWN[] = "nflptTbgNPH";

static void gen_literal(vprng_t *r, char *o, int maxn)
{
	static const char A[] = "abcdefghijklmnopqrstuvwxyz ABCDEFGHIJKLMNOPQRSTUVWXYZ0123456789[]():-_=+,./";
	int n = vp_chance(r, 1, 12) ? 30 + (int)vp_u(r, (uint32_t)maxn) : (int)vp_u(r, 8);
	if (n > maxn) n = maxn;
	for (int i = 0; i < n; i++) o[i] = A[vp_u(r, sizeof A - 1)];
	o[n] = 0;
}

static void gen_format(vprng_t *r, struct fmtdesc *f)
{
	memset(f, 0, sizeof *f);
	f->judged = 1;
	int kind = (int)vp_u(r, 20);
	int n = 1 + (int)vp_u(r, 7);
	if (kind == 0) n = 0;                                    /* empty format */
	char *cls = f->cls; strcpy(cls, "known");
	int longfmt = kind == 1 || kind == 2;
	for (int i = 0; i < n && f->nseg < MAXSEG - 2; i++) {
		struct seg *s = &f->s[f->nseg++];
		s->lit = 1; gen_literal(r, s->text, longfmt ? 600 : 40);
		s = &f->s[f->nseg++];
		s->lit = 0; s->width = -1;
		s->d = KNOWN[vp_u(r, sizeof KNOWN - 1)];
		if (vp_chance(r, 1, 3)) { s->ralign = (int)vp_u(r, 2); s->width = 1 + (int)vp_u(r, 40); }
		else if (vp_chance(r, 1, 8)) s->ralign = 1;        /* '-' without a width */
		if (vp_chance(r, 1, 40)) { s->width = 200 + (int)vp_u(r, 2000); strcpy(cls, "huge-width"); }
	}
	if (n > 0 && vp_chance(r, 1, 2)) { struct seg *s = &f->s[f->nseg++]; s->lit = 1; gen_literal(r, s->text, 30); }
	/* hostile endings / unknown directives: memory safety + termination only */
	static const char *TAILS[] = { "%", "%-", "%5", "%-12", "%%", "%x", "%5q", "%-7Z", "%%%", "%0", "%00000n", "%99999999999n", "%\n" };
	if (kind >= 3 && kind <= 6) {
		struct seg *s = &f->s[f->nseg++];
		s->lit = 1; strcpy(s->text, TAILS[vp_u(r, sizeof TAILS / sizeof TAILS[0])]);
		if (vp_chance(r, 1, 2) && f->nseg < MAXSEG) { struct seg *s2 = &f->s[f->nseg++]; s2->lit = 1; gen_literal(r, s2->text, 10); }
		f->judged = 0; strcpy(cls, "unknown-or-incomplete-directive");
	}
	/* a format that ends in a literal newline (targets strip it): content not judged, termination and bounds are */
	if (kind >= 7 && kind <= 9 && f->nseg < MAXSEG) {
		struct seg *s = &f->s[f->nseg++]; s->lit = 1; gen_literal(r, s->text, 12); size_t l = strlen(s->text); s->text[l] = '\n'; s->text[l + 1] = 0;
		f->judged = 0; strcpy(cls, "trailing-newline-literal");
	}
	size_t o = 0;
	for (int i = 0; i < f->nseg; i++) {
		struct seg *s = &f->s[i];
		if (s->lit) o += (size_t)snprintf(f->text + o, sizeof f->text - o, "%s", s->text);
		else if (s->width >= 0) o += (size_t)snprintf(f->text + o, sizeof f->text - o, "%%%s%d%c", s->ralign ? "-" : "", s->width, s->d);
		else o += (size_t)snprintf(f->text + o, sizeof f->text - o, "%%%s%c", s->ralign ? "-" : "", s->d);
	}
	if (longfmt && strcmp(cls, "known") == 0) snprintf(cls, 64, o > 255 ? "format-over-255" : "known");
}

/* length of the format after the static pass of qb_log_format_set() (%P %N %H expanded, the rest verbatim):
 * that pass works inside a window of the line limit, so only formats that fit it are judged for content */
static size_t static_len(const struct fmtdesc *f)
{
	size_t n = 0; char b[32];
	for (int i = 0; i < f->nseg; i++) {
		const struct seg *s = &f->s[i];
		if (s->lit) { n += strlen(s->text); continue; }
		size_t dl = 2 + (s->ralign ? 1 : 0) + (s->width >= 0 ? (size_t)snprintf(b, sizeof b, "%d", s->width) : 0);
		if (s->d == 'P' || s->d == 'N' || s->d == 'H') {
			size_t vl = s->d == 'N' ? strlen(NAME) : s->d == 'H' ? strlen(hostname_) : (size_t)snprintf(b, sizeof b, "%d", (int)getpid());
			n += s->width > 0 ? (size_t)s->width : vl;
		} else n += dl;
	}
	return n;
}

struct site { char *function, *filename; uint32_t lineno, tags; uint8_t priority; };

/* reference formatter, written from the directive list in qblog.h; returns full (untruncated) text */
/* a right-aligned ('-') field that straddles the line limit is squeezed into the remaining room by the
 * library instead of being cut at the right; "truncated to the limit" does not decide between the two,
 * so the comparison stops where such a field starts */
static size_t ref_cap, ref_safe_prefix;
static size_t ref_format(const struct fmtdesc *f, const struct site *cs, const struct timespec *ts, const char *msg, int have_tagfn,
			 char *out, size_t outsz)
{
	size_t o = 0; char v[5000];
	ref_safe_prefix = (size_t)-1;
	for (int i = 0; i < f->nseg; i++) {
		const struct seg *s = &f->s[i];
		if (s->lit) { o += (size_t)snprintf(out + o, outsz - o, "%s", s->text); continue; }
		struct tm tm; time_t sec = ts->tv_sec; gmtime_r(&sec, &tm);
		static const char *MON[] = { "Jan", "Feb", "Mar", "Apr", "May", "Jun", "Jul", "Aug", "Sep", "Oct", "Nov", "Dec" };
		const char *p;
		switch (s->d) {
		case 'n': snprintf(v, sizeof v, "%s", cs->function); break;
		case 'f': p = strrchr(cs->filename, '/'); snprintf(v, sizeof v, "%s", p ? p + 1 : cs->filename); break;
		case 'l': snprintf(v, sizeof v, "%u", cs->lineno); break;
		case 'p': snprintf(v, sizeof v, "%s", PRIO[cs->priority > 8 ? 8 : cs->priority]); break;
		case 't': snprintf(v, sizeof v, "%s %02d %02d:%02d:%02d", MON[tm.tm_mon], tm.tm_mday, tm.tm_hour, tm.tm_min, tm.tm_sec); break;
		case 'T': snprintf(v, sizeof v, "%s %02d %02d:%02d:%02d.%03ld", MON[tm.tm_mon], tm.tm_mday, tm.tm_hour, tm.tm_min, tm.tm_sec, ts->tv_nsec / 1000000); break;
		case 'b': snprintf(v, sizeof v, "%s", msg); break;
		case 'g': snprintf(v, sizeof v, "%s", have_tagfn ? tagfn(cs->tags) : ""); break;
		case 'N': snprintf(v, sizeof v, "%s", NAME); break;
		case 'P': snprintf(v, sizeof v, "%d", (int)getpid()); break;
		default: snprintf(v, sizeof v, "%s", hostname_); break;
		}
		size_t L = strlen(v);
		if (s->width > 0) {
			size_t W = (size_t)s->width;
			if (s->ralign && o < ref_cap && o + W > ref_cap && ref_safe_prefix == (size_t)-1) ref_safe_prefix = o;
			if (L > W) { v[W] = 0; L = W; }
			size_t pad = W - L;
			if (s->ralign) { for (size_t k = 0; k < pad && o < outsz - 1; k++) out[o++] = ' '; out[o] = 0; }
			o += (size_t)snprintf(out + o, outsz - o, "%s", v);
			if (!s->ralign) { for (size_t k = 0; k < pad && o < outsz - 1; k++) out[o++] = ' '; out[o] = 0; }
		} else o += (size_t)snprintf(out + o, outsz - o, "%s", v);
		if (o >= outsz - 1) { o = outsz - 1; break; }
	}
	out[o] = 0;
	return o;
}

/* judge `got` (NUL-terminated within limit) against the full reference text */
static void judge_line(const char *what, const char *cls, const char *full, size_t flen, const char *got, size_t limit, int ellipsis)
{
	char k[160];
	size_t cap = limit - 1;
	n_judged++;
	if (flen < cap) {
		if (strcmp(got, full) != 0) { snprintf(k, sizeof k, "fmt:%s-differs-from-spec:%s", what, cls); vp_violation(k, "limit=%zu want=[%.300s] got=[%.300s]", limit, full, got); }
		else n_equal++;
		return;
	}
	n_trunc++;
	size_t gl = strlen(got);
	if (gl != cap) { snprintf(k, sizeof k, "fmt:%s-truncated-length-wrong:%s", what, cls); vp_violation(k, "limit=%zu full=%zu got length %zu", limit, flen, gl); return; }
	size_t cmp = cap;
	int truly = flen > cap;
	if (ellipsis && cap >= 3) {
		int has = memcmp(got + cap - 3, "...", 3) == 0;
		if (truly && !has) { snprintf(k, sizeof k, "fmt:%s-missing-ellipsis:%s", what, cls); vp_violation(k, "limit=%zu got tail=[%.20s]", limit, got + (cap > 20 ? cap - 20 : 0)); return; }
		if (has) { cmp = cap - 3; n_ellipsis++; }
	} else if (!ellipsis && truly && cap >= 3 && memcmp(got + cap - 3, "...", 3) == 0 && memcmp(full + cap - 3, "...", 3) != 0) {
		snprintf(k, sizeof k, "fmt:%s-ellipsis-although-off:%s", what, cls); vp_violation(k, "limit=%zu", limit); return;
	}
	if (ref_safe_prefix < cmp) cmp = ref_safe_prefix;
	if (memcmp(got, full, cmp) != 0) { snprintf(k, sizeof k, "fmt:%s-truncated-text-differs:%s", what, cls); vp_violation(k, "limit=%zu want=[%.200s] got=[%.200s]", limit, full, got); }
	else n_equal++;
}

static int32_t T = -1;           /* custom target */
static struct fmtdesc F;
static char lastmsg[8192]; static int nmsg; static struct qb_log_callsite *lastcs; static struct timespec lastts;
static size_t cur_limit; static int cur_ellipsis, cur_tagfn;
static char fmtout_copy[8192]; static int fmtout_ok;

static void custom_logger(int32_t t, struct qb_log_callsite *cs, struct timespec *ts, const char *msg)
{
	nmsg++; n_delivered++;
	snprintf(lastmsg, sizeof lastmsg, "%s", msg);
	lastcs = cs; lastts = *ts;
	/* what a custom logger is meant to do: format into a buffer of max_line_length */
	if (cur_limit >= 1) {
		char *out = malloc(cur_limit);
		memset(out, 0x5a, cur_limit);
		qb_log_target_format(t, cs, ts, msg, out);
		fmtout_ok = memchr(out, 0, cur_limit) != NULL;
		if (fmtout_ok) snprintf(fmtout_copy, sizeof fmtout_copy, "%s", out);
		free(out);
	}
}

static size_t pick_limit(vprng_t *r)
{
	static const size_t L[] = { 4, 5, 6, 8, 12, 16, 31, 32, 64, 100, 256, 511, 512, 513, 1000, 4095, 4096 };
	if (vp_chance(r, 1, 12)) return 1 + vp_u(r, 3);          /* 1..3: own input class */
	if (vp_chance(r, 1, 6)) return 4 + vp_u(r, 600);
	return L[vp_u(r, sizeof L / sizeof L[0])];
}

static int max_prio = 12;
static void gen_site(vprng_t *r, struct site *s)
{
	char b[400];
	int n = 1 + (int)vp_u(r, vp_chance(r, 1, 10) ? 300 : 20);
	for (int i = 0; i < n; i++) b[i] = (char)('a' + vp_u(r, 26));
	b[n] = 0; s->function = hdup(b);
	/* no directory part: whether %f shows the path or the base name depends on the build (BUILDING_IN_PLACE) */
	snprintf(b, sizeof b, "file%u.c", vp_u(r, 1000));
	s->filename = hdup(b);
	s->lineno = 1 + vp_u(r, 50000); s->tags = vp_chance(r, 1, 2) ? 0 : vp_u(r, 1000); s->priority = (uint8_t)vp_u(r, (uint32_t)max_prio);
}

static void gen_msg(vprng_t *r, char *m, size_t limit, int *has_nl)
{
	size_t n;
	switch (vp_u(r, 10)) {
	case 0: n = 0; break;
	case 1: n = 1; break;
	case 2: n = limit > 2 ? limit - 2 + vp_u(r, 5) : vp_u(r, 5); break;
	case 3: n = limit + 100 + vp_u(r, 2000); break;
	default: n = vp_u(r, 120); break;
	}
	if (n > 7000) n = 7000;
	for (size_t i = 0; i < n; i++) m[i] = (char)(' ' + 1 + vp_u(r, 90));
	for (size_t i = 0; i < n; i++) if (m[i] == '%') m[i] = '#';
	m[n] = 0;
	*has_nl = 0;
	if (n > 0 && vp_chance(r, 1, 10)) { m[n - 1] = '\n'; *has_nl = 1; }
}

static long n_limit_at_end;
static void direct_case(long kase)
{
	vprng_t r; vp_seed(&r, vp.seed, (uint64_t)kase);
	gen_format(&r, &F);
	size_t limit = pick_limit(&r);
	int ellipsis = (int)vp_u(&r, 2);
	cur_tagfn = (int)vp_u(&r, 2);
	qb_log_tags_stringify_fn_set(cur_tagfn ? tagfn : NULL);
	vp_desc("direct limit=%zu ell=%d cls=%s fmt=%.150s", limit, ellipsis, F.cls, F.text);
	int rc = qb_log_ctl(T, QB_LOG_CONF_MAX_LINE_LEN, (int32_t)limit);
	if (rc != 0) { vp_violation("fmt:ctl-max-line-len-refused", "limit %zu refused with %d", limit, rc); return; }
	qb_log_ctl(T, QB_LOG_CONF_ELLIPSIS, ellipsis);
	char *fh = hdup(F.text);
	qb_log_format_set(T, fh);
	free(fh);                                    /* the library keeps its own copy */
	struct site s; gen_site(&r, &s);
	struct qb_log_callsite cs; memset(&cs, 0, sizeof cs);
	cs.function = s.function; cs.filename = s.filename; cs.format = "%s"; cs.priority = s.priority; cs.lineno = s.lineno; cs.tags = s.tags;
	struct timespec ts = { (time_t)(vp_u(&r, 2000000000u)), (long)vp_u(&r, 1000000000u) };
	static char m[8000]; int has_nl; gen_msg(&r, m, limit, &has_nl);
	/* in a quarter of the cases the limit is put right where this line ends (full length -1 .. +3): every way of a line
	 * meeting its limit, whatever the last thing written is (literal, padded field, message, stripped newline) */
	if (vp_chance(&r, 1, 4)) {
		static char probe[20000]; ref_cap = sizeof probe - 2;
		size_t fl = ref_format(&F, &s, &ts, m, cur_tagfn, probe, sizeof probe);
		size_t nl = fl + vp_u(&r, 5); nl = nl > 0 ? nl - 1 : 1; if (nl < 1) nl = 1; if (nl > 8000) nl = 8000;
		if (qb_log_ctl(T, QB_LOG_CONF_MAX_LINE_LEN, (int32_t)nl) == 0) { limit = nl; n_limit_at_end++; char *fh2 = hdup(F.text); qb_log_format_set(T, fh2); free(fh2); }
	}
	char *mh = hdup(m);
	char *out = malloc(limit);
	memset(out, 0x5a, limit);
	qb_log_target_format(T, &cs, &ts, mh, out);
	if (memchr(out, 0, limit) == NULL) {
		char k[128]; snprintf(k, sizeof k, "fmt:line-not-terminated-within-limit:%s", limit < 4 ? "limit<4" : F.cls);
		vp_violation(k, "limit=%zu", limit);
	} else {
		static char full[20000];
		ref_cap = limit - 1;
		size_t flen = ref_format(&F, &s, &ts, m, cur_tagfn, full, sizeof full);
		/* static expansion happens at format_set time inside a line-limit sized window: only formats whose
		 * expansion fits are judged for content (documented single-pass semantics) */
		int judged = F.judged && limit >= 4 && static_len(&F) + 1 < limit;
		if (has_nl && flen >= limit - 1) judged = 0;   /* a newline somewhere in a line that gets cut: unspecified */
		if (has_nl && flen > 0 && full[flen - 1] == '\n') { /* trailing newline may be stripped: accept both */
			if (judged && flen < limit - 1) { size_t gl = strlen(out); if (gl == flen - 1) { full[--flen] = 0; } }
			else judged = 0;
		}
		if (judged) judge_line("line", F.cls, full, flen, out, limit, ellipsis);
		else n_safety_only++;
	}
	vp_distinct(vp_hash_bytes(vp_hash_u64(limit, (uint64_t)ellipsis), F.text, strlen(F.text) > 40 ? 40 : strlen(F.text)));
	if (kase % 701 == 0) vp_sample("direct limit=%zu ellipsis=%d cls=%s fmt=[%.120s] msglen=%zu -> [%.80s]", limit, ellipsis, F.cls, F.text, strlen(m), out);
	free(out); free(mh); free(s.function); free(s.filename);
}

/* ---- real log calls --------------------------------------------------- */
static int32_t FT = -1; static char fpath[256];
static long fpos;

static int read_new_line(char *buf, size_t sz)
{
	FILE *f = fopen(fpath, "r"); if (!f) return -1;
	fseek(f, fpos, SEEK_SET);
	size_t n = fread(buf, 1, sz - 1, f); buf[n] = 0;
	fpos += (long)n; fclose(f);
	return (int)n;
}

static long n_oldcb_calls, n_oldcb_msgs;
static void old_log_cb(const char *file_name, int32_t file_line, int32_t severity, const char *msg) { (void)file_name; (void)file_line; (void)severity; n_oldcb_msgs++; volatile size_t l = strlen(msg); (void)l; }
static void calls_case(long kase)
{
	vprng_t r; vp_seed(&r, vp.seed, (uint64_t)kase);
	gen_format(&r, &F);
	size_t limit = pick_limit(&r);
	size_t flimit = vp_chance(&r, 1, 2) ? limit : pick_limit(&r);
	int lclass = (int)vp_u(&r, 30);
	int32_t req = (int32_t)limit;
	if (lclass == 0) req = 0; else if (lclass == 1) req = -1 - (int32_t)vp_u(&r, 100000); else if (lclass == 2) req = 4097 + (int32_t)vp_u(&r, 100000);
	int ellipsis = (int)vp_u(&r, 2), extended = (int)vp_u(&r, 2);
	cur_tagfn = 1; qb_log_tags_stringify_fn_set(tagfn);
	vp_desc("calls limit-req=%d flimit=%zu ell=%d ext=%d cls=%s fmt=%.120s", req, flimit, ellipsis, extended, F.cls, F.text);
	int rc = qb_log_ctl(T, QB_LOG_CONF_MAX_LINE_LEN, req);
	if (rc != 0) {
		n_ctl_rejected++;
		if (req >= 1 && req <= 4096) vp_violation("fmt:ctl-max-line-len-refused", "limit %d refused with %d", req, rc);
		qb_log_ctl(T, QB_LOG_CONF_MAX_LINE_LEN, (int32_t)limit);
	} else if (req < 1) {
		/* the control API accepted a limit that leaves no room for a terminated line:
		 * whatever it means, logging must stay memory safe (buffers sized by the API's own value) */
		limit = 0;
	}
	cur_limit = limit; cur_ellipsis = ellipsis;
	qb_log_ctl(FT, QB_LOG_CONF_MAX_LINE_LEN, (int32_t)flimit);
	qb_log_ctl(T, QB_LOG_CONF_ELLIPSIS, ellipsis); qb_log_ctl(FT, QB_LOG_CONF_ELLIPSIS, ellipsis);
	qb_log_ctl(T, QB_LOG_CONF_EXTENDED, extended); qb_log_ctl(FT, QB_LOG_CONF_EXTENDED, extended);
	char *fh = hdup(F.text); qb_log_format_set(T, fh); qb_log_format_set(FT, "%b"); free(fh);
	size_t maxlen = limit > flimit ? limit : flimit;          /* the message is expanded once, for the longest enabled line */
	int ncalls = 1 + (int)vp_u(&r, 3);
	for (int c = 0; c < ncalls; c++) {
		struct site s; gen_site(&r, &s);
		/* the deprecated callback of qb_util_set_log_function() gets messages tagged as libqb's own; whatever it is given, the
		 * targets must still get the formatted message bounded by their own limit */
		int oldcb = vp_chance(&r, 1, 5);
		if (oldcb) { s.tags |= 1u << QB_LOG_TAG_LIBQB_MSG_BIT; if (vp_chance(&r, 2, 3)) { qb_util_set_log_function(old_log_cb); n_oldcb_calls++; } }
		static char a1[8000], a2[300], exp[20000];
		int has_nl; gen_msg(&r, a1, maxlen ? maxlen : 64, &has_nl);
		int xc = vp_chance(&r, 1, 5) && strlen(a1) > 2; size_t xcpos = 0;
		if (xc) { xcpos = vp_u(&r, (uint32_t)strlen(a1)); if (a1[xcpos] != '\n') a1[xcpos] = QB_XC; else xc = 0; }
		int shape = (int)vp_u(&r, 6); int num = (int)vp_u(&r, 100000) - 50000;
		snprintf(a2, sizeof a2, "tail%u", vp_u(&r, 1000));
		nmsg = 0; n_calls++;
		const char *fmt;
		switch (shape) {
		case 0: fmt = "%s"; qb_log_from_external_source(s.function, s.filename, fmt, s.priority, s.lineno, s.tags, a1); snprintf(exp, sizeof exp, "%s", a1); break;
		case 1: fmt = "%s%s"; qb_log_from_external_source(s.function, s.filename, fmt, s.priority, s.lineno, s.tags, a1, a2); snprintf(exp, sizeof exp, "%s%s", a1, a2); break;
		case 2: fmt = "%d:%s"; qb_log_from_external_source(s.function, s.filename, fmt, s.priority, s.lineno, s.tags, num, a1); snprintf(exp, sizeof exp, "%d:%s", num, a1); break;
		case 3: fmt = ""; qb_log_from_external_source(s.function, s.filename, fmt, s.priority, s.lineno, s.tags); exp[0] = 0; break;
		case 4: fmt = "%s"; qb_log_from_external_source(s.function, s.filename, fmt, s.priority, s.lineno, s.tags, ""); exp[0] = 0; break;
		default: fmt = "plain text without arguments"; qb_log_from_external_source(s.function, s.filename, fmt, s.priority, s.lineno, s.tags); snprintf(exp, sizeof exp, "%s", fmt); break;
		}
		if (oldcb) qb_util_set_log_function(NULL);
		vp_desc("calls limit-req=%d flimit=%zu shape=%d msglen=%zu xc=%d", req, flimit, shape, strlen(exp), xc);
		/* expected message as handed to a logger */
		size_t el = strlen(exp);
		/* a newline inside a message that then gets truncated: whether the cut-off text "ends in a newline"
		 * is not specified anywhere; memory safety and delivery only */
		size_t minlim = limit < flimit ? limit : flimit;
		int nl_trunc = has_nl && shape <= 2 && (shape == 1 || minlim < 1 || el > minlim - 1);
		if (maxlen >= 1 && el > maxlen - 1) { el = maxlen - 1; exp[el] = 0; }
		int nl_stripped = 0;
		if (el > 0 && exp[el - 1] == '\n') { exp[--el] = 0; nl_stripped = 1; }
		(void)nl_stripped;
		char *q = strchr(exp, QB_XC); int dropped = 0;
		if (q) {
			if (q == exp && !extended) dropped = 1;            /* only extended information: nothing to log */
			else if (extended && q[1]) *q = '|'; else *q = 0;
		}
		if (limit >= 4 && maxlen >= 4) {
			if (!dropped && nmsg != 1) {
				char k[96]; snprintf(k, sizeof k, "fmt:log-call-not-delivered:%s", strlen(exp) == 0 ? "empty-message" : el >= maxlen - 1 ? "over-long-message" : "normal");
				vp_violation(k, "custom logger ran %d times for shape %d len %zu", nmsg, shape, el);
			} else if (!dropped && !nl_trunc && strcmp(lastmsg, exp) != 0) {
				vp_violation(xc ? "fmt:message-differs:extended-marker" : "fmt:message-differs", "want=[%.200s] got=[%.200s]", exp, lastmsg);
			}
			if (!dropped && nmsg == 1 && cur_limit >= 4 && !nl_trunc) {
				if (!fmtout_ok) vp_violation("fmt:line-not-terminated-within-limit:in-logger", "limit=%zu", cur_limit);
				else {
					static char full[20000]; struct site s2 = s;
					ref_cap = cur_limit - 1;
					size_t flen = ref_format(&F, &s2, &lastts, exp, 1, full, sizeof full);
					if (F.judged && static_len(&F) + 1 < cur_limit) judge_line("logger-line", F.cls, full, flen, fmtout_copy, cur_limit, ellipsis);
				}
			}
			/* file target: "%b" + newline */
			static char fb[16384]; int n = read_new_line(fb, sizeof fb);
			if (!dropped) {
				if (n <= 0 || fb[n - 1] != '\n') vp_violation("fmt:file-target-line-missing", "read %d bytes after the call", n);
				else {
					fb[n - 1] = 0; n_file_lines++;
					static char want[20000]; snprintf(want, sizeof want, "%s", exp);
					ref_safe_prefix = (size_t)-1;
					if (flimit >= 4 && !nl_trunc) judge_line("file-line", "file-%b", want, strlen(want), fb, flimit, ellipsis);
				}
			}
		} else { static char fb[16384]; read_new_line(fb, sizeof fb); n_safety_only++; }
		free(s.function); free(s.filename);
	}
	/* liveness: a normal message after hostile ones still arrives */
	qb_log_ctl(T, QB_LOG_CONF_MAX_LINE_LEN, 512); cur_limit = 512; qb_log_ctl(FT, QB_LOG_CONF_MAX_LINE_LEN, 512);
	qb_log_format_set(T, "%b"); struct fmtdesc keep = F; memset(&F, 0, sizeof F); F.nseg = 1; F.s[0].lit = 0; F.s[0].d = 'b'; F.s[0].width = -1; F.judged = 0;
	nmsg = 0;
	qb_log_from_external_source("alive", "alive.c", "alive %d", LOG_INFO, 7, 0, (int)kase);
	if (nmsg != 1) vp_violation("fmt:logger-dead-after-hostile-input", "a plain message after the case was delivered %d times", nmsg);
	{ static char fb[16384]; read_new_line(fb, sizeof fb); }
	F = keep;
	vp_distinct(vp_hash_bytes(vp_hash_u64((uint64_t)req * 31 + flimit, (uint64_t)(ellipsis * 2 + extended)), F.text, strlen(F.text) > 40 ? 40 : strlen(F.text)));
	if (kase % 301 == 0) vp_sample("calls limit-req=%d file-limit=%zu ellipsis=%d extended=%d cls=%s fmt=[%.100s] last-msg=[%.60s]", req, flimit, ellipsis, extended, F.cls, F.text, lastmsg);
}

int main(int argc, char **argv)
{
	vp_init(argc, argv);
	setenv("TZ", "UTC", 1); tzset();
	gethostname(hostname_, sizeof hostname_); hostname_[sizeof hostname_ - 1] = 0;
	int calls = strcmp(vp_arg("--mode", "direct"), "calls") == 0;
	qb_log_init(NAME, LOG_USER, LOG_EMERG);
	qb_log_ctl(QB_LOG_SYSLOG, QB_LOG_CONF_ENABLED, QB_FALSE);
	T = qb_log_custom_open(custom_logger, NULL, NULL, NULL);
	if (T < 0) { fprintf(stderr, "custom_open failed %d\n", T); return 2; }
	qb_log_filter_ctl(T, QB_LOG_FILTER_ADD, QB_LOG_FILTER_FILE, "*", LOG_TRACE);
	if (calls) {
		max_prio = 9; /* the filter window ends at LOG_TRACE */
		snprintf(fpath, sizeof fpath, "/tmp/vp-fmt-%d.log", (int)getpid());
		unlink(fpath);
		FT = qb_log_file_open(fpath);
		if (FT < 0) { fprintf(stderr, "file_open failed %d\n", FT); return 2; }
		qb_log_filter_ctl(FT, QB_LOG_FILTER_ADD, QB_LOG_FILTER_FILE, "*", LOG_TRACE);
		qb_log_ctl(FT, QB_LOG_CONF_ENABLED, QB_TRUE);
		qb_log_ctl(T, QB_LOG_CONF_ENABLED, QB_TRUE);
	}
	for (long k = vp.case_from; k < vp.case_to; k++) { vp_begin_case(k); if (calls) calls_case(k); else direct_case(k); }
	if (calls) unlink(fpath);
	qb_log_fini();
	vp_count("lines_judged", n_judged); vp_count("lines_equal_to_reference", n_equal); vp_count("safety_only_cases", n_safety_only);
	vp_count("truncated_lines", n_trunc); vp_count("ellipsis_seen", n_ellipsis); vp_count("log_calls", n_calls);
	vp_count("custom_logger_deliveries", n_delivered); vp_count("file_lines_read", n_file_lines); vp_count("limits_rejected_by_ctl", n_ctl_rejected);
	vp_count("limit_placed_at_line_end", n_limit_at_end); vp_count("calls_with_the_deprecated_callback_registered", n_oldcb_calls); vp_count("messages_seen_by_the_deprecated_callback", n_oldcb_msgs);
	vp_finish();
	return 0;
}
