/* C01: one writer + one reader on a (non-overwriting) ring: FIFO, exactly-once, untorn chunks.
 *
 * Engines (selected at compile time):
 *   -DENGINE_SCHED : controlled scheduler, every instrumented access of the ring code is a schedule point
 *   -DENGINE_TSAN  : real ThreadSanitizer, threads serialised by the (invisible) scheduler
 *   -DENGINE_FREE  : free running threads (--procs 0) or creator/opener processes (--procs 1)
 */
#define _GNU_SOURCE
#include "vp.h"
#include <pthread.h>
#include <sched.h>
#include <sys/wait.h>
#include <sys/mman.h>
#include <qb/qbdefs.h>
#include <qb/qbrb.h>
#if defined(ENGINE_SCHED) || defined(ENGINE_TSAN)
#include "vpsched.h"
#include "os_base.h"
#include "ringbuffer_int.h"     /* only for offsetof(): where write_pt lives in the shared header */
#define CONTROLLED 1
#else
#define CONTROLLED 0
static void vps_point(void) {}
static void vps_blocked(void) { sched_yield(); }
#endif

/* chunk i of a run: length and bytes are pure functions of (run seed, i) */
static uint64_t run_seed; static uint32_t ring_size; static int len_profile;
static uint32_t chunk_len(uint64_t i)
{
	uint64_t x = vp_mix(run_seed ^ (i * 0x9E3779B97F4A7C15ULL));
	uint32_t S = ring_size;
	switch (len_profile) {
	case 0: return (uint32_t)(x % 64);                                  /* tiny, many per ring */
	case 1: return (uint32_t)(x % (S + 1));                             /* anything up to the ring size */
	case 2: { uint32_t k = (uint32_t)(x % 7); return k == 0 ? S : k == 1 ? S - 1 : k == 2 ? S / 2 + 1 : (uint32_t)((x >> 8) % 200); }
	default: return 1 + (uint32_t)(x % 3) + 4 * (uint32_t)((x >> 4) % 40); /* never a multiple of 4 */
	}
}
static void chunk_fill(uint8_t *b, uint64_t i, uint32_t len)
{
	uint64_t x = vp_mix(run_seed * 31 + i);
	for (uint32_t k = 0; k < len; k++) { if ((k & 7) == 0) x = vp_mix(x + k); b[k] = (uint8_t)(x >> ((k & 7) * 8)); }
	if (len >= 8) memcpy(b, &i, 8);
	else if (len >= 1) b[0] = (uint8_t)i;
}

struct shared_result { long reads_ok, writes_ok, refused, empty, short_probes; int failed; int writer_done; char key[96]; char detail[400]; };
static struct shared_result *SR;

static qb_ringbuffer_t *RBW, *RBR;   /* same handle for threads */
static long nchunks; static int use_peek, use_alloc, with_sem, short_probe;
static int spin_w, spin_r;

static void fail(const char *key, const char *fmt, ...)
{
	if (__atomic_exchange_n(&SR->failed, 1, __ATOMIC_ACQ_REL)) return;
	va_list ap; va_start(ap, fmt); vsnprintf(SR->detail, sizeof SR->detail, fmt, ap); va_end(ap);
	snprintf(SR->key, sizeof SR->key, "%s", key);
}
static void spin(int n) { for (volatile int k = 0; k < n; k++) {} }

static void *writer(void *arg)
{
	(void)arg;
	static uint8_t buf[1 << 17];
#if CONTROLLED
	vps_thread_begin(0);
#endif
	for (long i = 0; i < nchunks && !__atomic_load_n(&SR->failed, __ATOMIC_ACQUIRE); ) {
		uint32_t len = chunk_len((uint64_t)i);
		ssize_t res;
		if (use_alloc && (i & 1)) {
			uint8_t *p = qb_rb_chunk_alloc(RBW, len);
			if (!p) res = -errno;
			else { chunk_fill(buf, (uint64_t)i, len); uint32_t h = len / 2; memcpy(p, buf, h); vps_point(); memcpy(p + h, buf + h, len - h); res = qb_rb_chunk_commit(RBW, len); if (res == 0) res = len; }
		} else { chunk_fill(buf, (uint64_t)i, len); res = qb_rb_chunk_write(RBW, buf, len); }
		if (res == (ssize_t)len) { __atomic_fetch_add(&SR->writes_ok, 1, __ATOMIC_RELAXED); i++; if (spin_w) spin(spin_w); }
		else if (res == -EAGAIN) { __atomic_fetch_add(&SR->refused, 1, __ATOMIC_RELAXED); vps_blocked(); }
		else { fail("spsc:write-unexpected-result", "write #%ld len=%u returned %zd", i, len, res); break; }
		vps_point();
	}
	__atomic_store_n(&SR->writer_done, 1, __ATOMIC_RELEASE);
#if CONTROLLED
	vps_thread_end();
#endif
	return NULL;
}

static void *reader(void *arg)
{
	(void)arg;
	static uint8_t buf[1 << 17], exp[1 << 17];
#if CONTROLLED
	vps_thread_begin(1);
#endif
	long idle = 0, snap_w = 0, snap_ref = 0, snap_idle = 0; int after_done = 0;
	for (long i = 0; i < nchunks && !__atomic_load_n(&SR->failed, __ATOMIC_ACQUIRE); ) {
		uint32_t len = chunk_len((uint64_t)i);
		ssize_t res; const uint8_t *got = buf;
		int tmo = CONTROLLED ? 0 : (with_sem ? 50 : 0);
		if (use_peek && (i % 3)) {
			void *p = NULL;
			res = qb_rb_chunk_peek(RBR, &p, tmo);
			if (res > 0) got = p;
			else if (res == 0) res = -ETIMEDOUT;    /* peek: 0 = nothing there (chunk lengths are >= 1 in peek runs) */
		} else {
			/* now and then the reader first offers a buffer that is too small: refused, the chunk stays, nothing is lost */
			if (short_probe && (i % 5) == 2 && len >= 2) {
				uint8_t tiny[8]; size_t tl = len - 1 < sizeof tiny ? len - 1 : sizeof tiny;
				ssize_t r0 = qb_rb_chunk_read(RBR, tiny, tl, tmo);
				if (r0 >= 0) { fail("spsc:short-read-returned-data", "read #%ld into %zu bytes returned %zd, the chunk has %u", i, tl, r0, len); break; }
				if (r0 == -ENOBUFS) SR->short_probes++;
				else if (r0 != -ETIMEDOUT && r0 != -EBADMSG && r0 != -EAGAIN) { fail("spsc:read-unexpected-result", "short read #%ld returned %zd", i, r0); break; }
				vps_point();
			}
			res = qb_rb_chunk_read(RBR, buf, sizeof buf, tmo);
		}
		if (res >= 0) {
			idle = 0; after_done = 0;
			if ((uint32_t)res != len) { fail("spsc:chunk-length-mismatch", "read #%ld returned %zd bytes, chunk #%ld was written with %u (torn, duplicated or skipped chunk)", i, res, i, len); break; }
			chunk_fill(exp, (uint64_t)i, len);
			if (memcmp(got, exp, len) != 0) {
				uint32_t d = 0; while (d < len && got[d] == exp[d]) d++;
				uint64_t seen = 0; if (len >= 8) memcpy(&seen, got, 8);
				fail("spsc:chunk-bytes-mismatch", "read #%ld (len %u) differs at byte %u; sequence word in the data says %llu", i, len, d, (unsigned long long)seen); break;
			}
			if (got != buf) qb_rb_chunk_reclaim(RBR);
			SR->reads_ok++; i++;
			if (spin_r) spin(spin_r);
		} else if (res == -ETIMEDOUT || res == -EBADMSG || res == -EAGAIN) {
			SR->empty++; idle++;
			/* no progress on either side: the reader keeps finding nothing while the writer keeps being refused and has not
			 * written anything since the reader's last success.  Both are actively failing, so this is not a matter of time */
			{ long K = (!CONTROLLED && with_sem) ? 60 : 20000;
			  long w_now = __atomic_load_n(&SR->writes_ok, __ATOMIC_RELAXED), ref_now = __atomic_load_n(&SR->refused, __ATOMIC_RELAXED);
			  if (idle == 1 || w_now != snap_w) { snap_w = w_now; snap_ref = ref_now; snap_idle = idle; }
			  else if (idle - snap_idle >= K && ref_now - snap_ref >= K && w_now > SR->reads_ok) {
				fail("spsc:stuck-ring-neither-readable-nor-writable", "%ld chunks written, %ld read: the reader found nothing %ld times in a row while the writer was refused %ld times; %ld reads into a too small buffer were refused on the way", w_now, SR->reads_ok, idle, ref_now - snap_ref, SR->short_probes); break; } }
			/* the writer has finished: everything it wrote is committed and must be there for the reader */
			if (__atomic_load_n(&SR->writer_done, __ATOMIC_ACQUIRE) && ++after_done > 3) {
				fail("spsc:written-chunk-never-returned", "writer finished %ld chunks, reader got %ld and finds the ring empty (read returned %zd); %ld reads into a too small buffer were refused on the way", __atomic_load_n(&SR->writes_ok, __ATOMIC_RELAXED), SR->reads_ok, res, SR->short_probes); break; }
			if (!CONTROLLED && idle > 200000000L) { fail("spsc:reader-starved", "no chunk for a very long time after %ld reads", i); break; }
			vps_blocked();
		} else { fail("spsc:read-unexpected-result", "read #%ld returned %zd", i, res); break; }
		vps_point();
	}
#if CONTROLLED
	vps_thread_end();
#endif
	return NULL;
}

static long n_short_probes;
static long n_runs, n_chunks_total, n_points, n_switches, n_refused, n_empty, n_wraps_est;

static void one_run(long kase, int procs)
{
	vprng_t r; vp_seed(&r, vp.seed, (uint64_t)kase);
	run_seed = vp_next(&r);
	static const uint32_t SZ[] = { 64, 200, 1000, 4000, 4083, 5000, 12000 };
	ring_size = SZ[vp_u(&r, CONTROLLED ? 4 : 7)];
	len_profile = (int)vp_u(&r, 4);
	use_peek = (int)vp_u(&r, 2); use_alloc = (int)vp_u(&r, 2); short_probe = (int)vp_u(&r, 2);
	with_sem = (int)vp_u(&r, 2);
#ifdef ENGINE_TSAN
	with_sem = 0;   /* with the semaphore TSan (correctly) sees sem_post -> sem_wait, which orders the payload by itself */
#endif
	if (use_peek && len_profile != 3) len_profile = 3;      /* peek cannot tell "empty" from a zero-length chunk */
	nchunks = CONTROLLED ? 20 + (long)vp_u(&r, 60) : (long)vp_argl("--chunks", 20000);
	spin_w = CONTROLLED ? 0 : (int)vp_u(&r, 4) * (int)vp_u(&r, 300);
	spin_r = CONTROLLED ? 0 : (int)vp_u(&r, 4) * (int)vp_u(&r, 300);
	memset((void *)SR, 0, sizeof *SR);
	uint32_t flags = QB_RB_FLAG_CREATE | (procs ? QB_RB_FLAG_SHARED_PROCESS : QB_RB_FLAG_SHARED_THREAD) | (with_sem ? 0 : QB_RB_FLAG_NO_SEMAPHORE);
	char name[64]; snprintf(name, sizeof name, "vp-spsc-%d-%ld", (int)getpid(), kase);
	vp_desc("S=%u profile=%d peek=%d alloc=%d sem=%d chunks=%ld procs=%d", ring_size, len_profile, use_peek, use_alloc, with_sem, nchunks, procs);
	qb_ringbuffer_t *rb = qb_rb_open(name, ring_size, flags, 0);
	if (!rb) { vp_violation("spsc:open-failed", "errno %d", errno); return; }
	RBW = RBR = rb;
	int den_choice = 0, pct = 0;
#if CONTROLLED
	static const uint32_t DEN[] = { 2, 3, 8, 32, 0, 0 };
	den_choice = (int)vp_u(&r, 6); pct = 1 + (int)vp_u(&r, 3);
	vps_setup(run_seed, DEN[den_choice], pct, nchunks * 60);
	{
		char *hdr = (char *)qb_rb_shared_user_data_get(rb) - offsetof(struct qb_ringbuffer_shared_s, user_data);
		vps_set_relaxed_addr(hdr + offsetof(struct qb_ringbuffer_shared_s, write_pt));
	}
#endif
	if (!procs) {
		pthread_t tw, tr;
		pthread_create(&tw, NULL, writer, NULL); pthread_create(&tr, NULL, reader, NULL);
		pthread_join(tw, NULL); pthread_join(tr, NULL);
	} else {
		/* creator (parent) writes, an opener process reads: the way IPC uses the ring */
		fflush(NULL);
		pid_t pid = fork();
		if (pid == 0) {
			qb_ringbuffer_t *o = qb_rb_open(name, ring_size, QB_RB_FLAG_SHARED_PROCESS | (with_sem ? 0 : QB_RB_FLAG_NO_SEMAPHORE), 0);
			if (!o) { fail("spsc:open-in-reader-process-failed", "errno %d", errno); _exit(0); }
			RBR = o; reader(NULL); qb_rb_close(o); _exit(0);
		}
		writer(NULL);
		int st; waitpid(pid, &st, 0);
		if (!WIFEXITED(st)) fail("spsc:reader-process-died", "status 0x%x", st);
	}
#if CONTROLLED
	vps_disable();
	long p, s; uint64_t h; vps_stats(&p, &s, &h);
	n_points += p; n_switches += s;
	if (s > 0 && (SR->refused > 0 || SR->empty > 0)) vp_distinct(h ^ vp_mix(run_seed));
#else
	vp_distinct(vp_hash_u64(run_seed, (uint64_t)ring_size * 100 + (uint64_t)len_profile * 10 + (uint64_t)use_peek * 4 + (uint64_t)use_alloc * 2 + (uint64_t)with_sem));
#endif
	if (!SR->failed && (SR->reads_ok != nchunks || SR->writes_ok != nchunks))
		fail("spsc:conservation", "written %ld read %ld of %ld", (long)SR->writes_ok, (long)SR->reads_ok, nchunks);
	if (!SR->failed && qb_rb_chunk_read(rb, (char[8]){0}, 8, 0) >= 0) fail("spsc:extra-chunk-after-all-were-read", "ring not empty at quiescence");
	if (SR->failed) vp_violation(SR->key, "%s [S=%u profile=%d peek=%d alloc=%d sem=%d den#%d pct=%d]", SR->detail, ring_size, len_profile, use_peek, use_alloc, with_sem, den_choice, pct);
	n_runs++; n_chunks_total += SR->reads_ok; n_refused += SR->refused; n_empty += SR->empty; n_short_probes += SR->short_probes;
	if (kase % 211 == 0) {
		vp_sample("run=%ld S=%u lengths=profile%d peek=%d alloc+commit=%d semaphore=%d chunks=%ld refused-writes=%ld empty-reads=%ld%s", kase, ring_size, len_profile, use_peek, use_alloc, with_sem,
			  nchunks, (long)SR->refused, (long)SR->empty, procs ? " (2 processes)" : "");
	}
	qb_rb_close(rb);
}

int main(int argc, char **argv)
{
	vp_init(argc, argv);
	SR = mmap(NULL, 4096, PROT_READ | PROT_WRITE, MAP_SHARED | MAP_ANONYMOUS, -1, 0);
	int procs = (int)vp_argl("--procs", 0);
	for (long k = vp.case_from; k < vp.case_to; k++) { vp_begin_case(k); one_run(k, procs); }
	vp_count("runs", n_runs); vp_count("chunks_read_and_verified", n_chunks_total); vp_count("schedule_points", n_points);
	vp_count("context_switches", n_switches); vp_count("refused_writes_ring_full", n_refused); vp_count("empty_reads", n_empty);
	vp_count("reads_into_too_small_buffer_refused", n_short_probes);
	vp_finish();
	return 0;
}
