#ifndef VPSCHED_H
#define VPSCHED_H
#include <stdint.h>
void vps_setup(uint64_t seed, uint32_t den, int pct_depth, long est_points);
void vps_set_range(void *lo, void *hi);
int vps_in_range(const void *p);
void vps_thread_begin(int id);
void vps_thread_end(void);
void vps_point(void);
void vps_blocked(void);
void vps_stats(long *points, long *switches, uint64_t *hash);
void vps_disable(void);
void vps_set_relaxed_addr(void *a);
#endif
