#include "vp.h"
#include <pthread.h>
#include <time.h>

struct vp_state vp;
/* protocol stream; harnesses that must capture the library's own stdout point it at a dup of fd 1 */
FILE *vp_out;
#define OUT (vp_out ? vp_out : stdout)
static int g_argc; static char **g_argv;

const char *vp_arg(const char *name, const char *dflt)
{
	for (int i = 1; i + 1 < g_argc; i++)
		if (strcmp(g_argv[i], name) == 0) return g_argv[i + 1];
	return dflt;
}
long vp_argl(const char *name, long dflt)
{
	const char *v = vp_arg(name, NULL);
	return v ? strtol(v, NULL, 0) : dflt;
}

static void emit_case_marker(const char *why)
{
	char b[512];
	int n = snprintf(b, sizeof b, "\nVP-CASE %ld %s | %s\n", vp.cur_case, why, vp.cur_desc);
	if (n > 0) (void)!write(2, b, n < (int)sizeof b ? n : (int)sizeof b - 1);
}

/* called by the ASan runtime when it starts to report an error */
static int finished;
int vp_quiet;   /* set in forked helper processes: they must not write protocol lines */
/* a dying process still reports what its monitors saw up to now */
void __asan_on_error(void) { emit_case_marker("asan"); if (!finished && !vp_quiet) vp_finish(); if (!vp_quiet) fflush(OUT); }

static void on_fatal(int sig)
{
	emit_case_marker(sig == SIGABRT ? "abort" : sig == SIGSEGV ? "segv" : sig == SIGBUS ? "bus" : "signal");
	if (!finished && !vp_quiet) vp_finish();
	if (!vp_quiet) fflush(OUT);
	signal(sig, SIG_DFL);
	raise(sig);
}

void vp_init(int argc, char **argv)
{
	g_argc = argc; g_argv = argv;
	memset(&vp, 0, sizeof vp);
	vp.seed = (uint64_t)strtoull(vp_arg("--seed", "1"), NULL, 0);
	vp.case_from = vp_argl("--from", 0);
	vp.case_to = vp_argl("--to", 1);
	vp.dist = calloc(VP_MAXDIST, sizeof(uint64_t));
	vp_seed(&vp.librng, vp.seed, 0xabcdef);
	signal(SIGABRT, on_fatal);
#if !defined(__SANITIZE_ADDRESS__)
	signal(SIGSEGV, on_fatal);
	signal(SIGBUS, on_fatal);
#endif
	setvbuf(stdout, NULL, _IOLBF, 0);
}

void vp_begin_case(long n)
{
	vp.cur_case = n;
	vp.cur_desc[0] = 0;
	vp_seed(&vp.librng, vp.seed ^ 0x5151, (uint64_t)n);
}

void vp_desc(const char *fmt, ...)
{
	va_list ap; va_start(ap, fmt);
	vsnprintf(vp.cur_desc, sizeof vp.cur_desc, fmt, ap);
	va_end(ap);
}

void vp_json_str(FILE *f, const char *s)
{
	fputc('"', f);
	for (; *s; s++) {
		unsigned char c = (unsigned char)*s;
		if (c == '"' || c == '\\') { fputc('\\', f); fputc(c, f); }
		else if (c < 0x20 || c >= 0x7f) fprintf(f, "\\u%04x", c);
		else fputc(c, f);
	}
	fputc('"', f);
}

static void emit(char tag, const char *key, const char *fmt, va_list ap)
{
	char buf[4096];
	vsnprintf(buf, sizeof buf, fmt, ap);
	fprintf(OUT, "%c {\"key\":", tag);
	vp_json_str(OUT, key);
	fprintf(OUT, ",\"case\":%ld,\"seed\":%llu,\"detail\":", vp.cur_case, (unsigned long long)vp.seed);
	vp_json_str(OUT, buf);
	fprintf(OUT, ",\"desc\":");
	vp_json_str(OUT, vp.cur_desc);
	fprintf(OUT, "}\n");
	fflush(OUT);
}

/* violations may be reported from several threads of a harness: one at a time (emit() uses static buffers) */
static pthread_mutex_t vp_emit_lock = PTHREAD_MUTEX_INITIALIZER;
void vp_violation(const char *key, const char *fmt, ...)
{
	va_list ap; va_start(ap, fmt);
	pthread_mutex_lock(&vp_emit_lock);
	if (vp.nviol < 200) emit('V', key, fmt, ap);
	vp.nviol++;
	pthread_mutex_unlock(&vp_emit_lock);
	va_end(ap);
}
void vp_diag(const char *key, const char *fmt, ...)
{
	static int ndiag;
	va_list ap; va_start(ap, fmt);
	pthread_mutex_lock(&vp_emit_lock);
	if (ndiag++ < 50) emit('D', key, fmt, ap);
	pthread_mutex_unlock(&vp_emit_lock);
	va_end(ap);
}

static int cnt_slot(const char *name, int is_max)
{
	for (int i = 0; i < vp.ncnt; i++)
		if (vp.cnt[i].name == name || strcmp(vp.cnt[i].name, name) == 0) return i;
	if (vp.ncnt >= VP_MAXCNT) return -1;
	vp.cnt[vp.ncnt].name = strdup(name); vp.cnt[vp.ncnt].v = 0; vp.cnt[vp.ncnt].is_max = is_max;
	return vp.ncnt++;
}
void vp_count(const char *name, long long d) { int i = cnt_slot(name, 0); if (i >= 0) vp.cnt[i].v += d; }
void vp_max(const char *name, long long v) { int i = cnt_slot(name, 1); if (i >= 0 && v > vp.cnt[i].v) vp.cnt[i].v = v; }

void vp_distinct(uint64_t h)
{
	if (h == 0) h = 1;
	if (vp.ndist >= VP_MAXDIST / 2) { vp.ndist_over++; return; }
	unsigned i = (unsigned)(vp_mix(h) & (VP_MAXDIST - 1));
	while (vp.dist[i]) { if (vp.dist[i] == h) return; i = (i + 1) & (VP_MAXDIST - 1); }
	vp.dist[i] = h; vp.ndist++;
}

void vp_sample(const char *fmt, ...)
{
	if (vp.nsamples >= VP_MAXSAMPLES) return;
	char buf[1500];
	va_list ap; va_start(ap, fmt);
	vsnprintf(buf, sizeof buf, fmt, ap);
	va_end(ap);
	vp.samples[vp.nsamples++] = strdup(buf);
}

void vp_finish(void)
{
	FILE *f = OUT;
	finished = 1;
	fprintf(f, "S {\"from\":%ld,\"to\":%ld,\"nviol\":%d,\"counters\":{", vp.case_from, vp.case_to, vp.nviol);
	for (int i = 0; i < vp.ncnt; i++) {
		if (i) fputc(',', f);
		vp_json_str(f, vp.cnt[i].name);
		fprintf(f, ":[%lld,%d]", vp.cnt[i].v, vp.cnt[i].is_max);
	}
	fprintf(f, "},\"dist_over\":%u,\"samples\":[", vp.ndist_over);
	for (int i = 0; i < vp.nsamples; i++) { if (i) fputc(',', f); vp_json_str(f, vp.samples[i]); }
	fprintf(f, "],\"distinct\":[");
	int first = 1;
	for (unsigned i = 0; i < VP_MAXDIST; i++)
		if (vp.dist[i]) { fprintf(f, "%s\"%llx\"", first ? "" : ",", (unsigned long long)vp.dist[i]); first = 0; }
	fprintf(f, "]}\n");
	fflush(f);
}

/* libqb's random()/srand() are redirected here with -Wl,--wrap so that a case
 * replays from (seed, case index) */
long __wrap_random(void) { return (long)(vp_next(&vp.librng) & 0x7fffffff); }
void __wrap_srand(unsigned s) { (void)s; }
