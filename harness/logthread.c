/* C16: threaded logging delivers every queued message once, in order, before fini;
 * control operations and re-initialisation are safe.  tsan + asan flavours. */
#include "vp.h"
#include <pthread.h>
#include <fcntl.h>
#include <qb/qbdefs.h>
#include <qb/qblog.h>

#define MAXT 3
#define MAXEV 70000
struct ev { int slot, seq, after_fini, by_app; };
static pthread_t app_thread;
static struct ev EV[MAXEV]; static int nev;
static pthread_mutex_t evlock = PTHREAD_MUTEX_INITIALIZER;
static int fini_returned;      /* atomic */
static int slow_slot = -1, slow_us;
static int logger_calls_after_fini;

static int burn_on; static long n_loaded_cases;
static void *burner(void *a) { (void)a; volatile unsigned long x = 0; while (__atomic_load_n(&burn_on, __ATOMIC_ACQUIRE)) { for (int i = 0; i < 20000; i++) x += (unsigned long)i; } return NULL; }
/* writes in progress per target, by a thread other than the application's (relaxed atomics: harness state) */
static int thread_in_logger[QB_LOG_TARGET_MAX + 1];
static int in_custom_close;     /* qb_log_custom_close() does not pause the logging thread: not judged */
static long n_close_cb, n_disable_probes, n_disable_probes_busy_before;
static void logger(int32_t t, struct qb_log_callsite *cs, struct timespec *ts, const char *msg)
{
	(void)cs; (void)ts;
	int seq = -1;
	int mine = pthread_equal(pthread_self(), app_thread);
	if (!mine && t >= 0 && t <= QB_LOG_TARGET_MAX) __atomic_add_fetch(&thread_in_logger[t], 1, __ATOMIC_SEQ_CST);
	const char *p = strchr(msg, '#');
	if (p) seq = atoi(p + 1);
	pthread_mutex_lock(&evlock);
	if (nev < MAXEV) { EV[nev].slot = t; EV[nev].seq = seq; EV[nev].after_fini = __atomic_load_n(&fini_returned, __ATOMIC_ACQUIRE); EV[nev].by_app = pthread_equal(pthread_self(), app_thread); nev++; }
	pthread_mutex_unlock(&evlock);
	if (t == slow_slot && slow_us) usleep((useconds_t)slow_us);
	if (!mine && t >= 0 && t <= QB_LOG_TARGET_MAX) __atomic_sub_fetch(&thread_in_logger[t], 1, __ATOMIC_SEQ_CST);
}

/* close callback of the custom targets: qb_log_ctl() keeps the logging thread out of the target while it changes it */
static void closer(int32_t t)
{
	__atomic_add_fetch(&n_close_cb, 1, __ATOMIC_RELAXED);
	if (t < 0 || t > QB_LOG_TARGET_MAX || __atomic_load_n(&in_custom_close, __ATOMIC_RELAXED)) return;
	if (__atomic_load_n(&thread_in_logger[t], __ATOMIC_SEQ_CST) != 0)
		vp_violation("logt:target-closed-during-write", "close callback of target %d (from qb_log_ctl) while the logging thread is inside its logger", t);
}

static int cap_fd = -1; static off_t cap_off;
static long read_lost_reports(int *nreports)
{
	fflush(stdout);
	char b[8192]; long sum = 0; *nreports = 0;
	off_t end = lseek(cap_fd, 0, SEEK_END);
	static char carry[64]; size_t cl = 0; (void)carry; (void)cl;
	while (cap_off < end) {
		ssize_t n = pread(cap_fd, b, sizeof b - 1, cap_off);
		if (n <= 0) break;
		b[n] = 0; cap_off += n;
		char *q = b;
		while ((q = strstr(q, " messages lost")) != NULL) {
			char *s = q; while (s > b && s[-1] >= '0' && s[-1] <= '9') s--;
			sum += atol(s); (*nreports)++; q += 5;
		}
	}
	return sum;
}

static long n_bad_ctl;
static long n_msgs, n_delivered, n_dropped_accounted, n_rounds, n_ctl_ops, n_backlog_cases, n_reinit, n_ctl_before_start;
static char bigpad[4200];

/* a case that does not finish: producer, logging thread or qb_log_fini stuck.  Generous (a case takes seconds).  A thread
 * of its own, not a signal: a producer spinning on a lock inside a sanitizer run-time never gets to run a handler */
static long case_started, case_no = -1;   /* atomics: read by the watchdog thread */
static void *watchdog(void *a)
{
	(void)a;
	for (;;) {
		struct timespec ts = { 1, 0 }; nanosleep(&ts, NULL);
		long st = __atomic_load_n(&case_started, __ATOMIC_RELAXED); if (st && (long)time(NULL) - st > 150) {
			char m[400]; int n = snprintf(m, sizeof m, "V {\"key\":\"logt:case-does-not-finish\",\"case\":%ld,\"seed\":0,\"detail\":\"no end of the case after 150 s (producer, logging thread or qb_log_fini stuck)\",\"desc\":\"watchdog\"}\n", __atomic_load_n(&case_no, __ATOMIC_RELAXED));
			if (write(vp_out ? fileno(vp_out) : 1, m, (size_t)n) < 0) {} _exit(3); }   /* fd 1 is the capture file of the 'messages lost' reports */
	}
	return NULL;
}
/* a signal whose handler was installed without SA_RESTART (what qb_loop_signal_add() does) and that the producer has
 * blocked: the kernel hands it to another thread, e.g. the logging thread idle in sem_wait() */
static long n_signals_sent; static int sig_hits;
static void on_usr1(int sig) { (void)sig; __atomic_add_fetch(&sig_hits, 1, __ATOMIC_RELAXED); }
static void start_logging_thread(void) { sigset_t bs; sigemptyset(&bs); sigaddset(&bs, SIGUSR1); pthread_sigmask(SIG_UNBLOCK, &bs, NULL); qb_log_thread_start(); pthread_sigmask(SIG_BLOCK, &bs, NULL); }   /* the new thread inherits the mask: it is the only one that takes SIGUSR1 */
static void poke_other_threads(void) { n_signals_sent++; kill(getpid(), SIGUSR1); }
static void run_case(long kase)
{
	{ static int sig_ready; if (!sig_ready) { sig_ready = 1; struct sigaction sa; memset(&sa, 0, sizeof sa); sa.sa_handler = on_usr1; sigemptyset(&sa.sa_mask); sa.sa_flags = 0; sigaction(SIGUSR1, &sa, NULL);
		sigset_t bs; sigemptyset(&bs); sigaddset(&bs, SIGUSR1); pthread_sigmask(SIG_BLOCK, &bs, NULL); } }
	{ static int wd_started; if (!wd_started) { wd_started = 1; pthread_t wt; pthread_create(&wt, NULL, watchdog, NULL); } }
	__atomic_store_n(&case_no, kase, __ATOMIC_RELAXED); __atomic_store_n(&case_started, (long)time(NULL), __ATOMIC_RELAXED);
	vprng_t r; vp_seed(&r, vp.seed, (uint64_t)kase);
	int rounds = vp_chance(&r, 1, 3) ? 2 : 1;
	/* --mode finirace: very many short init..fini rounds of 1-4 messages on a loaded machine: qb_log_fini() arrives while
	 * the logging thread is being woken for the last record */
	int finirace = !strcmp(vp_arg("--mode", "mixed"), "finirace");
	if (finirace) rounds = 120;
	uint64_t h = (uint64_t)rounds;
	char trace[400]; size_t tn = 0; trace[0] = 0;
#define TR(...) do { if (tn < sizeof trace - 40) tn += (size_t)snprintf(trace + tn, 40, __VA_ARGS__); } while (0)
	app_thread = pthread_self();
	/* a loaded machine: in a third of the cases competing threads keep the cores busy, so that the logging thread is
	 * preempted at arbitrary points (between being woken and taking its lock, for instance) */
	int burners = (finirace || vp_chance(&r, 1, 3)) ? 6 : 0; pthread_t bt[8];
	__atomic_store_n(&burn_on, 1, __ATOMIC_RELEASE);
	for (int b = 0; b < burners; b++) pthread_create(&bt[b], NULL, burner, NULL);
	if (burners) n_loaded_cases++;
	for (int rd = 0; rd < rounds; rd++) {
		n_rounds++; if (rd) n_reinit++;
		pthread_mutex_lock(&evlock); nev = 0; pthread_mutex_unlock(&evlock);
		__atomic_store_n(&fini_returned, 0, __ATOMIC_RELEASE);
		int nt = 1 + (int)vp_u(&r, MAXT);
		int threaded[MAXT], slot[MAXT];
		int order = (int)vp_u(&r, 3);      /* 0: THREADED then start; 1: start then THREADED; 2: THREADED, control ops, then start */
		int start_thread = vp_chance(&r, 9, 10);
		int hazard = vp_chance(&r, 1, 5) ? 1 + (int)vp_u(&r, 3) : 0;  /* 1 disable/enable, 2 close, 3 un-thread: delivery not judged */
		int N = vp_chance(&r, 1, 4) ? 1500 + (int)vp_u(&r, 1500) : 5 + (int)vp_u(&r, 300);
		int big = vp_chance(&r, 1, 3);
		slow_us = vp_chance(&r, 1, 3) ? 20 + (int)vp_u(&r, 300) : 0;
		int signals = vp_chance(&r, 1, 3);
		if (finirace) { N = 1 + (int)vp_u(&r, 4); hazard = 0; start_thread = 1; big = 0; slow_us = 0; }
		if (big && slow_us && N > 1000) n_backlog_cases++;
		vp_desc("round=%d nt=%d order=%d start=%d hazard=%d N=%d big=%d slow=%d", rd, nt, order, start_thread, hazard, N, big, slow_us);
		TR("[r%d nt%d o%d s%d hz%d N%d b%d sl%d] ", rd, nt, order, start_thread, hazard, N, big, slow_us);
		qb_log_init("vp-thread", LOG_USER, LOG_EMERG);
		qb_log_ctl(QB_LOG_SYSLOG, QB_LOG_CONF_ENABLED, QB_FALSE);
		int any_threaded = 0;
		for (int i = 0; i < nt; i++) {
			slot[i] = qb_log_custom_open(logger, closer, NULL, NULL);
			threaded[i] = (i == 0) ? vp_chance(&r, 5, 6) : vp_chance(&r, 1, 2);
			if (threaded[i]) any_threaded = 1;
			qb_log_filter_ctl(slot[i], QB_LOG_FILTER_ADD, QB_LOG_FILTER_FILE, "*", LOG_TRACE);
			qb_log_ctl(slot[i], QB_LOG_CONF_MAX_LINE_LEN, 4096);
		}
		slow_slot = -1;
		for (int i = 0; i < nt; i++) if (threaded[i]) { slow_slot = slot[i]; break; }
		if (order == 1 && start_thread) start_logging_thread();
		for (int i = 0; i < nt; i++) if (threaded[i]) qb_log_ctl(slot[i], QB_LOG_CONF_THREADED, QB_TRUE);
		if (order == 2) {
			/* control operations on a threaded target before the thread exists */
			for (int i = 0; i < nt; i++) if (threaded[i]) {
				n_ctl_before_start++;
				vp_desc("round=%d control-before-thread-start slot=%d", rd, slot[i]);
				qb_log_ctl(slot[i], QB_LOG_CONF_ELLIPSIS, QB_TRUE);
				qb_log_ctl(slot[i], QB_LOG_CONF_EXTENDED, QB_FALSE);
				qb_log_format_set(slot[i], "%b");
			}
		}
		for (int i = 0; i < nt; i++) qb_log_ctl(slot[i], QB_LOG_CONF_ENABLED, QB_TRUE);
		if (order != 1 && start_thread) start_logging_thread();
		int judged = start_thread && !hazard;
		/* logging to a threaded target needs the thread (precondition of the property): without it only the
		 * control operations and init/fini are exercised */
		if (!start_thread && any_threaded) N = 0;
		vp_desc("round=%d producing N=%d (nt=%d order=%d start=%d hazard=%d)", rd, N, nt, order, start_thread, hazard);
		char ctl_note[300] = ""; size_t cno = 0; int hz_slot = -1;
		for (int s = 0; s < N; s++) {
			int padlen = big ? 1000 + (int)vp_u(&r, 3000) : (int)vp_u(&r, 40);
			qb_log_from_external_source("producer", "prod.c", "#%d %.*s", LOG_INFO, 77, 0, s, padlen, bigpad);
			n_msgs++;
			if (vp_chance(&r, 1, 40)) {
				/* benign control operations while the logging thread is busy */
				int i = (int)vp_u(&r, (uint32_t)nt); n_ctl_ops++;
				uint32_t which = vp_u(&r, 7);
				if (cno + 24 < sizeof ctl_note) cno += (size_t)snprintf(ctl_note + cno, sizeof ctl_note - cno, "op%u@#%d/slot%d ", which, s, slot[i]);
				switch (which) {
				case 0: qb_log_format_set(slot[i], vp_chance(&r, 1, 2) ? "%b" : "[%p] %b"); break;
				case 1: qb_log_ctl(slot[i], QB_LOG_CONF_ELLIPSIS, (int)vp_u(&r, 2)); break;
				case 2: qb_log_ctl(slot[i], QB_LOG_CONF_MAX_LINE_LEN, 4096); break;
				case 3: (void)qb_log_ctl(slot[i], QB_LOG_CONF_STATE_GET, 0); break;
				case 5: { /* refused control operations (bad value, unknown item) must leave everything as it was, the logging thread included */
					static const int BAD[] = { 0, -1, 4097, 100000 }; int rcb = qb_log_ctl(slot[i], QB_LOG_CONF_MAX_LINE_LEN, BAD[vp_u(&r, 4)]); n_bad_ctl++;
					if (rcb == 0) vp_violation("logt:invalid-control-operation-accepted", "MAX_LINE_LEN out of range returned 0"); break; }
				case 6: { int rcb = qb_log_ctl(slot[i], (enum qb_log_conf)(40 + vp_u(&r, 50)), 1); n_bad_ctl++; if (rcb == 0) vp_violation("logt:invalid-control-operation-accepted", "unknown configuration item returned 0"); break; }
				default: qb_log_filter_ctl(slot[i], QB_LOG_FILTER_ADD, QB_LOG_FILTER_FILE, "nomatch.c", LOG_TRACE); break;
				}
			}
			if (hazard && s == N / 2) {
				int i = 0; for (int k = 0; k < nt; k++) if (threaded[k]) { i = k; break; }
				hz_slot = slot[i];
				vp_desc("round=%d hazard=%d on slot %d at message %d", rd, hazard, slot[i], s);
				if (hazard == 1) {
					if (__atomic_load_n(&thread_in_logger[slot[i]], __ATOMIC_SEQ_CST)) n_disable_probes_busy_before++;
					qb_log_ctl(slot[i], QB_LOG_CONF_ENABLED, QB_FALSE);
					/* disabled under the pause lock: no write to it can be in progress or begin until it is enabled again */
					n_disable_probes++;
					if (__atomic_load_n(&thread_in_logger[slot[i]], __ATOMIC_SEQ_CST) != 0)
						vp_violation("logt:write-in-progress-after-disable", "qb_log_ctl(%d, ENABLED, FALSE) returned while the logging thread is inside the target's logger", slot[i]);
					qb_log_ctl(slot[i], QB_LOG_CONF_ENABLED, QB_TRUE);
				}
				else if (hazard == 2) { __atomic_store_n(&in_custom_close, 1, __ATOMIC_RELAXED); qb_log_custom_close(slot[i]); __atomic_store_n(&in_custom_close, 0, __ATOMIC_RELAXED); }
				else qb_log_ctl(slot[i], QB_LOG_CONF_THREADED, QB_FALSE);
			}
			if (signals && vp_chance(&r, 1, 60)) { usleep(300); poke_other_threads(); }   /* after a pause the logging thread is most likely idle */
			if (slow_us == 0 && vp_chance(&r, 1, 200)) usleep(50);
		}
		vp_desc("round=%d qb_log_fini (nt=%d order=%d start=%d hazard=%d N=%d)", rd, nt, order, start_thread, hazard, N);
		qb_log_fini();
		__atomic_store_n(&fini_returned, 1, __ATOMIC_RELEASE);
		/* control operations after the system was stopped must be refused, not crash */
		(void)qb_log_ctl(slot[0], QB_LOG_CONF_ENABLED, QB_TRUE);
		(void)qb_log_filter_ctl(slot[0], QB_LOG_FILTER_ADD, QB_LOG_FILTER_FILE, "*", LOG_TRACE);
		qb_log_from_external_source("producer", "prod.c", "#%d late", LOG_INFO, 78, 0, -5);
		usleep(2000);
		int nrep; long lost = read_lost_reports(&nrep);
		pthread_mutex_lock(&evlock);
		int total = nev;
		for (int i = 0; i < nt; i++) {
			int last = -1, cnt = 0, dup = 0, ooo = 0, late = 0; char ooo_note[160] = ""; int last_by_app = 0, napp = 0;
			for (int e = 0; e < total; e++) if (EV[e].slot == slot[i]) {
				if (EV[e].after_fini) late++;
				/* a target switched back to direct mode mid-stream (hazard 3) is no longer "in threaded mode": what was queued
				 * before may come after what is written directly; each of the two writers must still be in order by itself */
				if (hazard == 3 && threaded[i] && slot[i] == hz_slot) {
					static int last_of[2]; if (cnt == 0) last_of[0] = last_of[1] = -1;
					int b = EV[e].by_app ? 1 : 0;
					if (EV[e].seq == last_of[b]) dup++; else if (EV[e].seq < last_of[b]) { if (!ooo) snprintf(ooo_note, sizeof ooo_note, "#%d after #%d, both by the %s", EV[e].seq, last_of[b], b ? "application thread" : "logging thread"); ooo++; }
					last_of[b] = EV[e].seq; last = EV[e].seq; last_by_app = EV[e].by_app; napp += EV[e].by_app; cnt++;
					continue;
				}
				if (EV[e].seq == last) dup++; else if (EV[e].seq < last) { if (!ooo) snprintf(ooo_note, sizeof ooo_note, "#%d (%s) delivered after #%d (%s), message %d of %d for the slot, %d so far by the application thread, hazard at #%d", EV[e].seq, EV[e].by_app ? "application thread" : "logging thread", last, last_by_app ? "application thread" : "logging thread", cnt, N, napp, hazard ? N / 2 : -1); ooo++; }
				last = EV[e].seq; last_by_app = EV[e].by_app; napp += EV[e].by_app; cnt++;
			}
			n_delivered += cnt;
			char k[160];
			const char *kind = threaded[i] ? "threaded" : "direct";
			if (late) { snprintf(k, sizeof k, "logt:delivery-after-fini-returned:%s", kind); vp_violation(k, "%d logger calls after qb_log_fini returned", late); }
			if (dup) { snprintf(k, sizeof k, "logt:duplicate-delivery:%s", kind); vp_violation(k, "slot %d: %d duplicates", slot[i], dup); }
			if (ooo) { snprintf(k, sizeof k, "logt:out-of-order-delivery:%s", kind); vp_violation(k, "slot %d (%s): %d inversions; first: %s", slot[i], threaded[i] ? "threaded" : "direct", ooo, ooo_note); }
			if (judged) {
				long expect = threaded[i] ? (long)N - lost : (long)N;
				if (cnt != expect) {
					snprintf(k, sizeof k, "logt:%s:%s", cnt < expect ? "messages-missing-unaccounted" : "more-delivered-than-accounted", kind);
					char miss[200] = ""; size_t mo = 0; static unsigned char seen[4096]; memset(seen, 0, sizeof seen);
					for (int e = 0; e < total; e++) if (EV[e].slot == slot[i] && EV[e].seq >= 0 && EV[e].seq < 4096) seen[EV[e].seq] = 1;
					for (int q = 0; q < N && q < 4096 && mo + 12 < sizeof miss; q++) if (!seen[q]) mo += (size_t)snprintf(miss + mo, sizeof miss - mo, "#%d ", q);
					vp_violation(k, "slot %d: logged %d, delivered %d (%d by the application thread), reported lost %ld (%d reports); order=%d; missing: %s; control ops during the run: %s", slot[i], N, cnt, napp, lost, nrep, order, miss, ctl_note);
				}
			}
		}
		pthread_mutex_unlock(&evlock);
		if (judged && any_threaded) n_dropped_accounted += lost;
		if (!any_threaded && lost) vp_violation("logt:lost-report-without-threaded-target", "%ld", lost);
		h = vp_hash_u64(h, (uint64_t)(nt * 1000 + order * 100 + start_thread * 10 + hazard) ^ ((uint64_t)(N > 1000) << 20) ^ ((uint64_t)big << 21) ^ ((uint64_t)(slow_us > 0) << 22) ^ ((uint64_t)(lost > 0) << 23));
	}
	__atomic_store_n(&burn_on, 0, __ATOMIC_RELEASE);
	for (int b = 0; b < burners; b++) pthread_join(bt[b], NULL);
	vp_distinct(h);
	if (kase % 13 == 0) vp_sample("case=%ld %s", kase, trace);
}

int main(int argc, char **argv)
{
	vp_init(argc, argv);
	memset(bigpad, 'x', sizeof bigpad - 1);
	/* the library prints "N messages lost" to stdout: keep the protocol on a dup and capture fd 1 */
	vp_out = fdopen(dup(1), "w");
	char path[64]; snprintf(path, sizeof path, "/tmp/vp-logt-%d.out", (int)getpid());
	cap_fd = open(path, O_RDWR | O_CREAT | O_TRUNC, 0600);
	unlink(path);
	dup2(cap_fd, 1);
	for (long k = vp.case_from; k < vp.case_to; k++) { vp_begin_case(k); run_case(k); }
	vp_count("messages_logged", n_msgs); vp_count("logger_invocations", n_delivered); vp_count("drops_reported_and_matched", n_dropped_accounted);
	vp_count("init_fini_rounds", n_rounds); vp_count("reinit_rounds", n_reinit); vp_count("control_ops_while_busy", n_ctl_ops);
	vp_count("backlog_pressure_rounds", n_backlog_cases); vp_count("close_callbacks", n_close_cb); vp_count("disable_probes", n_disable_probes); vp_count("disable_probes_thread_busy_before", n_disable_probes_busy_before); vp_count("control_before_thread_start", n_ctl_before_start);
	vp_count("signals_sent_to_the_other_threads", n_signals_sent); vp_count("cases_run_on_a_loaded_machine", n_loaded_cases); vp_count("refused_control_operations_while_busy", n_bad_ctl);
	vp_finish();
	return 0;
}
