/* Serialising two-thread scheduler.  Exactly one of the two threads runs; at
 * every schedule point a seeded policy decides whether to hand the token over.
 *
 * Built two ways:
 *  -DVPS_TSAN_ABI  (sched flavour): this file IS the "ThreadSanitizer runtime" of
 *      the instrumented ring objects: every __tsan_read/write/atomic call is a
 *      schedule point.  No libtsan is linked.
 *  -DVPS_REAL_TSAN (tsan flavour): linked together with libtsan.  Only the calls
 *      gcc emits for volatile accesses (--param tsan-distinguish-volatile=1) are
 *      defined here: schedule point + __tsan_acquire / __tsan_release, i.e. the
 *      acquire/release convention the ring relies on for read_pt / write_pt.
 *
 * This translation unit is always compiled WITHOUT sanitizer instrumentation
 * and hands the token over with raw futexes and __atomic builtins, so it is
 * invisible to ThreadSanitizer and adds no happens-before edges of its own.
 */
#define _GNU_SOURCE
#include <stdint.h>
#include <stddef.h>
#include <string.h>
#include <unistd.h>
#include <limits.h>
#include <sys/syscall.h>
#include <linux/futex.h>
#include "vpsched.h"

static int enabled;
static int token;                 /* which thread may run */
static int active[2];
static __thread int self = -1;
static uint64_t rs;
static uint32_t switch_den = 4;   /* probability 1/den per point, 0 = PCT mode */
static long points, switches, pct_points[4]; static int pct_n;
static uint64_t sched_hash;
static uintptr_t range_lo, range_hi;

static inline uint64_t nextr(void) { rs += 0x9e3779b97f4a7c15ULL; uint64_t z = rs; z = (z ^ (z >> 30)) * 0xbf58476d1ce4e5b9ULL; z = (z ^ (z >> 27)) * 0x94d049bb133111ebULL; return z ^ (z >> 31); }

static void fwait(int *addr, int val) { syscall(SYS_futex, addr, FUTEX_WAIT, val, NULL, NULL, 0); }
static void fwake(int *addr) { syscall(SYS_futex, addr, FUTEX_WAKE, INT_MAX, NULL, NULL, 0); }

void vps_setup(uint64_t seed, uint32_t den, int pct_depth, long est_points)
{
	rs = seed * 0x2545F4914F6CDD1DULL + 12345; switch_den = den; points = switches = 0; sched_hash = 1469598103934665603ULL;
	pct_n = 0;
	if (den == 0) { pct_n = pct_depth; for (int i = 0; i < pct_n; i++) pct_points[i] = (long)(nextr() % (uint64_t)(est_points > 0 ? est_points : 1)); }
	__atomic_store_n(&token, 0, __ATOMIC_SEQ_CST);
	active[0] = active[1] = 1;
	__atomic_store_n(&enabled, 1, __ATOMIC_SEQ_CST);
}
void vps_set_range(void *lo, void *hi) { range_lo = (uintptr_t)lo; range_hi = (uintptr_t)hi; }
int vps_in_range(const void *p) { return (uintptr_t)p >= range_lo && (uintptr_t)p < range_hi; }

void vps_thread_begin(int id)
{
	self = id;
	while (__atomic_load_n(&token, __ATOMIC_ACQUIRE) != id) fwait(&token, 1 - id);
}
static void hand_over(void)
{
	int other = 1 - self;
	switches++;
	sched_hash = (sched_hash ^ (uint64_t)(points * 2 + self)) * 0x100000001b3ULL;
	__atomic_store_n(&token, other, __ATOMIC_RELEASE);
	fwake(&token);
	while (__atomic_load_n(&token, __ATOMIC_ACQUIRE) != self) fwait(&token, other);
}
void vps_thread_end(void)
{
	if (self < 0) return;
	active[self] = 0;
	if (active[1 - self]) { __atomic_store_n(&token, 1 - self, __ATOMIC_RELEASE); fwake(&token); }
	self = -1;
}
void vps_point(void)
{
	if (!__atomic_load_n(&enabled, __ATOMIC_RELAXED) || self < 0 || !active[1 - self]) return;
	points++;
	int sw = 0;
	if (switch_den) sw = (nextr() % switch_den) == 0;
	else for (int i = 0; i < pct_n; i++) if (pct_points[i] == points) sw = 1;
	if (sw) hand_over();
}
/* the caller cannot make progress (ring full / empty): let the other thread run */
void vps_blocked(void)
{
	if (!__atomic_load_n(&enabled, __ATOMIC_RELAXED) || self < 0) return;
	if (!active[1 - self]) return;
	points++;
	hand_over();
}
void vps_stats(long *p, long *s, uint64_t *h) { *p = points; *s = switches; *h = sched_hash; }
void vps_disable(void) { __atomic_store_n(&enabled, 0, __ATOMIC_SEQ_CST); }
#ifndef VPS_REAL_TSAN
void vps_set_relaxed_addr(void *a) { (void)a; }
#endif

#ifdef VPS_TSAN_ABI
/* ---- the instrumented objects' "runtime": every access is a schedule point ---- */
void __tsan_init(void) {}
void __tsan_func_entry(void *pc) { (void)pc; }
void __tsan_func_exit(void) {}
#define ACC(n) void __tsan_read##n(void *a) { (void)a; vps_point(); } void __tsan_write##n(void *a) { (void)a; vps_point(); } \
	void __tsan_volatile_read##n(void *a) { (void)a; vps_point(); } void __tsan_volatile_write##n(void *a) { (void)a; vps_point(); } \
	void __tsan_unaligned_read##n(void *a) { (void)a; vps_point(); } void __tsan_unaligned_write##n(void *a) { (void)a; vps_point(); }
ACC(1) ACC(2) ACC(4) ACC(8) ACC(16)
void __tsan_read_range(void *a, long n) { (void)a; (void)n; vps_point(); }
void __tsan_write_range(void *a, long n) { (void)a; (void)n; vps_point(); }
int __tsan_atomic32_load(const volatile int *a, int mo) { (void)mo; vps_point(); int v = __atomic_load_n(a, __ATOMIC_SEQ_CST); return v; }
void __tsan_atomic32_store(volatile int *a, int v, int mo) { (void)mo; vps_point(); __atomic_store_n(a, v, __ATOMIC_SEQ_CST); vps_point(); }
int __tsan_atomic32_fetch_add(volatile int *a, int v, int mo) { (void)mo; vps_point(); return __atomic_fetch_add(a, v, __ATOMIC_SEQ_CST); }
int __tsan_atomic32_fetch_sub(volatile int *a, int v, int mo) { (void)mo; vps_point(); return __atomic_fetch_sub(a, v, __ATOMIC_SEQ_CST); }
int __tsan_atomic32_exchange(volatile int *a, int v, int mo) { (void)mo; vps_point(); return __atomic_exchange_n(a, v, __ATOMIC_SEQ_CST); }
int __tsan_atomic32_compare_exchange_strong(volatile int *a, int *c, int v, int mo, int fmo) { (void)mo; (void)fmo; vps_point(); return __atomic_compare_exchange_n(a, c, v, 0, __ATOMIC_SEQ_CST, __ATOMIC_SEQ_CST); }
void __tsan_atomic_thread_fence(int mo) { (void)mo; vps_point(); }
#endif

#ifdef VPS_REAL_TSAN
void __tsan_acquire(void *addr);
void __tsan_release(void *addr);
void __tsan_read4(void *); void __tsan_write4(void *); void __tsan_read8(void *); void __tsan_write8(void *);
void __tsan_read1(void *); void __tsan_write1(void *); void __tsan_read2(void *); void __tsan_write2(void *);
/* The only volatile objects in the ring code are read_pt and write_pt.
 *  - read_pt is the one and only thing that orders the reader's accesses to a consumed chunk before the
 *    writer's reuse of that space: volatile store = release, volatile load = acquire (the convention the
 *    code relies on).
 *  - write_pt is NOT what publishes a chunk: that is the release store / acquire load of the chunk magic.
 *    It is treated as a relaxed atomic (no race report, no happens-before), so that weakening the magic's
 *    memory order is visible to ThreadSanitizer instead of being masked by the pointer.
 * Threads are serialised between points, so annotating before the access is exact. */
static void *relaxed_addr;
void vps_set_relaxed_addr(void *a) { relaxed_addr = a; }
void __tsan_volatile_read4(void *a) { vps_point(); if (a != relaxed_addr) __tsan_acquire(a); }
void __tsan_volatile_write4(void *a) { vps_point(); if (a != relaxed_addr) __tsan_release(a); }
void __tsan_volatile_read8(void *a) { vps_point(); __tsan_acquire(a); }
void __tsan_volatile_write8(void *a) { vps_point(); __tsan_release(a); }
void __tsan_volatile_read1(void *a) { __tsan_read1(a); }
void __tsan_volatile_write1(void *a) { __tsan_write1(a); }
void __tsan_volatile_read2(void *a) { __tsan_read2(a); }
void __tsan_volatile_write2(void *a) { __tsan_write2(a); }
#endif
