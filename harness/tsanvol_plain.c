/* gcc's --param tsan-distinguish-volatile=1 (used for ringbuffer*.c in the tsan
 * flavour) emits calls libtsan does not define.  Harnesses that do not model
 * the ring's volatile convention (everything except C01) treat volatile
 * accesses as ordinary ones. */
void __tsan_read1(void *); void __tsan_read2(void *); void __tsan_read4(void *); void __tsan_read8(void *); void __tsan_read16(void *);
void __tsan_write1(void *); void __tsan_write2(void *); void __tsan_write4(void *); void __tsan_write8(void *); void __tsan_write16(void *);
void __tsan_volatile_read1(void *a) { __tsan_read1(a); }
void __tsan_volatile_read2(void *a) { __tsan_read2(a); }
void __tsan_volatile_read4(void *a) { __tsan_read4(a); }
void __tsan_volatile_read8(void *a) { __tsan_read8(a); }
void __tsan_volatile_read16(void *a) { __tsan_read16(a); }
void __tsan_volatile_write1(void *a) { __tsan_write1(a); }
void __tsan_volatile_write2(void *a) { __tsan_write2(a); }
void __tsan_volatile_write4(void *a) { __tsan_write4(a); }
void __tsan_volatile_write8(void *a) { __tsan_write8(a); }
void __tsan_volatile_write16(void *a) { __tsan_write16(a); }
