/* C08 / C09 / C10: the event loop under a virtual clock, with epoll_wait wrapped.
 *   --mode ledger : registration ledger (exactly-once, no callback after delete, stale handles, FIFO, stop)   [C08]
 *   --mode timers : timer timing against the virtual clock, every epoll_wait timeout vs earliest expiry       [C09]
 *   --mode fair   : dispatch-per-iteration trace under saturating workloads                                   [C10]
 */
#define _GNU_SOURCE
#include "vp.h"
#include <time.h>
#include <errno.h>
#include <poll.h>
#include <sys/epoll.h>
#include <sys/eventfd.h>
#include <qb/qbdefs.h>
#include <qb/qbloop.h>
#include <qb/qblist.h>
#include "loop_int.h"   /* structural audit of the dispatch queues (todo counters vs list lengths) */

enum { M_LEDGER, M_TIMERS, M_FAIR };
static int mode;

/* ---- virtual clock ------------------------------------------------------- */
static uint64_t vnow; static uint64_t clock_res_ns = 1; static long n_clock_reads;
#define EPOCH_OFF 1700000000000000000ULL
int __wrap_clock_gettime(clockid_t c, struct timespec *ts)
{
	uint64_t t = vnow;
	if (c == CLOCK_REALTIME || c == CLOCK_REALTIME_COARSE) t += EPOCH_OFF;
	ts->tv_sec = (time_t)(t / 1000000000ULL); ts->tv_nsec = (long)(t % 1000000000ULL);
	n_clock_reads++;
	vnow += 1;    /* real clocks never return the same instant twice */
	return 0;
}
int __wrap_clock_getres(clockid_t c, struct timespec *ts) { (void)c; ts->tv_sec = 0; ts->tv_nsec = (long)clock_res_ns; return 0; }
static long n_usleep; static uint64_t usleep_total_us;
int __wrap_usleep(useconds_t us) { n_usleep++; usleep_total_us += us; vnow += (uint64_t)us * 1000; return 0; }
int __real_epoll_wait(int, struct epoll_event *, int, int);

/* ---- ledger --------------------------------------------------------------- */
enum { K_JOB, K_TIMER, K_FD, K_SIG };
enum { ST_LIVE, ST_FIRED, ST_DELETED };
#define MAXREG 3000
struct ud { uint32_t magic; int reg; };
struct reg {
	int kind, state, prio; struct ud *ud;
	qb_loop_timer_handle th; uint64_t lo, hi, dur; int fired_at_iter; uint64_t fired_at;       /* timer */
	int fd, fd_dispatches, fd_mode, fd_closed;                                                  /* fd */
	int signo; int sig_unjudged; int nohandle; qb_loop_signal_handle sh; int sig_expected, sig_got;                             /* signal */
	long seq;                                                                                   /* job order */
	int queued_hint;
};
static struct reg R[MAXREG]; static int nR;
static qb_loop_t *L;
static vprng_t rng;
static long iter, iter_budget; static int stop_by_callback, stops_requested_by_cb, in_run;
static long job_seq;
static long n_cb[4], n_adds[4], n_dels[4], n_del_queued, n_stale, n_fd_reuse, n_iters, n_epoll_checks, n_negative_timeouts, n_inside_ops, n_stop_cb, n_timer_queries;
static int feat_del_queued, feat_stale, feat_fd_reuse, feat_stop, feat_neg_fd_open;
static char cls_desc[80];

static struct ud *mkud(int reg) { struct ud *u = malloc(sizeof *u); u->magic = 0x5eed0000u + (uint32_t)reg; u->reg = reg; return u; }
static void dropud(int i) { if (R[i].ud) { R[i].ud->magic = 0xdead; free(R[i].ud); R[i].ud = NULL; } }

static int newreg(int kind, int prio) { if (nR >= MAXREG) return -1; memset(&R[nR], 0, sizeof R[0]); R[nR].kind = kind; R[nR].prio = prio; R[nR].state = ST_LIVE; R[nR].ud = mkud(nR); R[nR].fd = -1; return nR++; }

static int reg_of(void *data, const char *what)
{
	struct ud *u = data;          /* freed user data => heap-use-after-free right here */
	int i = u->reg;
	if (u->magic != 0x5eed0000u + (uint32_t)i) { vp_violation("loop:callback-with-foreign-user-data", "%s got %p", what, data); return -1; }
	return i;
}

static void do_random_ops(int inside);
/* failpoint: the next allocation made while armed fails (armed around one registration call of the ledger) */
static int fail_alloc_armed; static long n_enomem_adds;
void *__real_malloc(size_t n); void *__real_calloc(size_t a, size_t b); void *__real_realloc(void *p, size_t n);
void *__wrap_malloc(size_t n) { if (fail_alloc_armed) { fail_alloc_armed = 0; errno = ENOMEM; return NULL; } return __real_malloc(n); }
void *__wrap_calloc(size_t a, size_t b) { if (fail_alloc_armed) { fail_alloc_armed = 0; errno = ENOMEM; return NULL; } return __real_calloc(a, b); }
void *__wrap_realloc(void *p, size_t n) { if (fail_alloc_armed) { fail_alloc_armed = 0; errno = ENOMEM; return NULL; } return __real_realloc(p, n); }
static int fp_arm(void) { if (mode == M_FAIR || !vp_chance(&rng, 1, 15)) return 0; fail_alloc_armed = 1; return 1; }
/* returns 1 when the registration call ran out of memory: it must have said so, and it is as if it had not been made */
static int fp_done(int armed, int rc, const char *what) { if (!armed) return 0; int fired = !fail_alloc_armed; fail_alloc_armed = 0; if (!fired) return 0; n_enomem_adds++; if (rc == 0) { char k[96]; snprintf(k, sizeof k, "loop:%s-succeeds-although-allocation-failed", what); vp_violation(k, "rc 0"); return 0; } return 1; }
static void op_add_fd(void);
static int draining;
static long n_readd_in_retire;

/* trampolines */
static void job_cb(void *data)
{
	int i = reg_of(data, "job"); if (i < 0) return;
	n_cb[K_JOB]++; if (getenv("VP_TRACE2")) fprintf(stderr, "it%ld CB job prio%d\n", iter, R[i].prio);
	if (R[i].state != ST_LIVE) { vp_violation(R[i].state == ST_FIRED ? "loop:job-ran-twice" : "loop:job-ran-after-delete", "job reg#%d state=%d", i, R[i].state); return; }
	/* FIFO within a priority: every earlier added job of the same priority is done or deleted */
	for (int k = 0; k < nR; k++) if (R[k].kind == K_JOB && R[k].prio == R[i].prio && R[k].state == ST_LIVE && R[k].seq < R[i].seq) {
		vp_violation("loop:jobs-out-of-order", "job seq %ld ran before seq %ld (priority %d)", R[i].seq, R[k].seq, R[i].prio); break; }
	R[i].state = ST_FIRED; R[i].fired_at_iter = (int)iter;
	dropud(i);
	do_random_ops(1);
}
static int jobs_recently;      /* jobs were queued in this or the previous iteration: the 50 ms pause may apply */
static void timer_cb(void *data)
{
	int i = reg_of(data, "timer"); if (i < 0) return;
	n_cb[K_TIMER]++;
	if (R[i].state != ST_LIVE) { vp_violation(R[i].state == ST_FIRED ? "loop:timer-ran-twice" : "loop:timer-ran-after-delete", "timer reg#%d state=%d", i, R[i].state); return; }
	R[i].state = ST_FIRED; R[i].fired_at = vnow; R[i].fired_at_iter = (int)iter;
	if (getenv("VP_TRACE")) fprintf(stderr, "it%ld FIRE timer reg#%d now=%llu\n", iter, i, (unsigned long long)vnow);
	if (vnow < R[i].lo) {
		char k[96]; snprintf(k, sizeof k, "loop:timer-fired-early:%s", R[i].dur >= (1ULL << 63) ? "duration>=2^63ns" : "normal-duration");
		vp_violation(k, "timer reg#%d duration %llu ns added at <=%llu fired at %llu", i, (unsigned long long)R[i].dur, (unsigned long long)(R[i].lo - R[i].dur), (unsigned long long)vnow);
	}
	if (mode == M_TIMERS) {
		/* expiry order within a priority */
		for (int k = 0; k < nR; k++) if (k != i && R[k].kind == K_TIMER && R[k].prio == R[i].prio && R[k].state == ST_LIVE && R[k].hi < R[i].lo && R[k].hi + 1 < vnow) {
			vp_violation("loop:timers-out-of-expiry-order", "timer reg#%d (expiry>=%llu) fired while reg#%d (expiry<=%llu) of the same priority is still pending", i, (unsigned long long)R[i].lo, k, (unsigned long long)R[k].hi); break; }
		uint64_t allowed = R[i].hi + 2000000ULL + clock_res_ns + 50000000ULL /* job pause */;
		if (vnow > allowed && R[i].hi + 60000000ULL > R[i].hi) {
			char k[96]; snprintf(k, sizeof k, "loop:timer-fired-late:%s", cls_desc);
			vp_violation(k, "timer reg#%d expiry<=%llu fired at %llu (%.3f ms late)", i, (unsigned long long)R[i].hi, (unsigned long long)vnow, (double)(vnow - R[i].hi) / 1e6);
		}
	}
	dropud(i);
	do_random_ops(1);
}
static long feat_neg_after_selfdel;
static int32_t fd_cb(int32_t fd, int32_t revents, void *data)
{
	(void)revents;
	int i = reg_of(data, "fd"); if (i < 0) return 0;
	n_cb[K_FD]++; if (getenv("VP_TRACE2")) fprintf(stderr, "it%ld CB fd prio%d reg%d mode%d disp%d\n", iter, R[i].prio, i, R[i].fd_mode, R[i].fd_dispatches);
	if (R[i].state != ST_LIVE) { vp_violation("loop:fd-callback-after-removal", "fd reg#%d (fd %d) state=%d", i, fd, R[i].state); return 0; }
	if (R[i].fd != fd) vp_violation("loop:fd-callback-wrong-fd", "reg#%d expects fd %d got %d", i, R[i].fd, fd);
	R[i].fd_dispatches++;
	int m = R[i].fd_mode;
	if (m == 0 || R[i].fd_dispatches > 6) { uint64_t v; if (read(fd, &v, 8) < 0) {} }  /* drain: not ready any more */
	do_random_ops(1);
	if (R[i].state != ST_LIVE) { if (vp_chance(&rng, 1, 2)) { feat_neg_after_selfdel++; return -1; } return 0; }   /* deleted itself from inside; "remove me" on top of that must be harmless (also for what was added meanwhile) */
	if (m == 2 && R[i].fd_dispatches >= 2) {              /* retire by negative return */
		R[i].state = ST_DELETED;
		if (vp_chance(&rng, 2, 3)) { close(fd); R[i].fd_closed = 1; if (!draining && mode != M_FAIR && vp_chance(&rng, 1, 3)) { n_readd_in_retire++; op_add_fd(); } /* the number is free again: a new descriptor added right here usually gets it */ } else feat_neg_fd_open = 1;
		dropud(i);
		return -1;
	}
	return 0;
}
static int32_t sig_cb(int32_t sig, void *data)
{
	int i = reg_of(data, "signal"); if (i < 0) return 0;
	n_cb[K_SIG]++;
	if (R[i].state != ST_LIVE) { vp_violation("loop:signal-callback-after-delete", "signal reg#%d (sig %d)", i, sig); return 0; }
	if (R[i].signo != sig && !R[i].sig_unjudged) vp_violation("loop:signal-callback-wrong-signal", "reg#%d expects %d got %d", i, R[i].signo, sig);
	R[i].sig_got++;
	do_random_ops(1);
	return 0;
}

/* ---- operations ----------------------------------------------------------- */
static uint64_t pick_duration(void)
{
	if (mode == M_TIMERS) {
		static const uint64_t B[] = { 0, 1, 999999, 1000000, 1000001, 49999999, 50000000, 1000000000ULL, 2147483647ULL * 1000000, 2147483648ULL * 1000000, 2147483649ULL * 1000000,
			4294967295ULL * 1000000, 4294967296ULL * 1000000, 4294967297ULL * 1000000, 1ULL << 62, (1ULL << 63) - 1, 1ULL << 63, ~0ULL - 1, ~0ULL, 3000000000ULL * 1000000 };
		if (vp_chance(&rng, 1, 4)) return B[vp_u(&rng, sizeof B / sizeof B[0])];
		int e = (int)vp_u(&rng, 40); return (vp_next(&rng) % (1ULL << (e + 1)));
	}
	switch (vp_u(&rng, 5)) { case 0: return 0; case 1: return vp_u(&rng, 2000000); case 2: return 5000000; default: return vp_u(&rng, 300) * 1000000ULL; }
}

static void op_add_job(void)
{
	int p = (int)vp_u(&rng, 3); int i = newreg(K_JOB, p); if (i < 0) return;
	R[i].seq = job_seq++;
	int fa = fp_arm(); int rc = qb_loop_job_add(L, (enum qb_loop_priority)p, R[i].ud, job_cb);
	if (fp_done(fa, rc, "job-add")) { R[i].state = ST_DELETED; dropud(i); return; }
	if (rc != 0) { vp_violation("loop:job-add-failed", "rc=%d", rc); R[i].state = ST_DELETED; dropud(i); return; }
	n_adds[K_JOB]++; jobs_recently = 2;
}
static long n_nohandle_timers;
static void op_add_timer(void)
{
	int p = (int)vp_u(&rng, 3); int i = newreg(K_TIMER, p); if (i < 0) return;
	uint64_t d = pick_duration();
	R[i].dur = d;
	uint64_t before = vnow;
	/* a quarter of the timers are added without asking for a handle (fire and forget) */
	R[i].nohandle = vp_chance(&rng, 1, 4); if (R[i].nohandle) n_nohandle_timers++;
	/* (no allocation failpoint here or for descriptors: growing their tables is guarded by assert() in the library, i.e. the
	 * process is given up on purpose when memory runs out; that is outside what the property is about) */
	int rc = qb_loop_timer_add(L, (enum qb_loop_priority)p, d, R[i].ud, timer_cb, R[i].nohandle ? NULL : &R[i].th);
	uint64_t after = vnow;
	R[i].lo = before + d < before ? ~0ULL : before + d; R[i].hi = after + d < after ? ~0ULL : after + d;
	if (getenv("VP_TRACE")) fprintf(stderr, "it%ld add timer reg#%d prio%d dur=%llu th=%llx lo=%llu rc=%d\n", iter, i, p, (unsigned long long)d, (unsigned long long)R[i].th, (unsigned long long)R[i].lo, rc);
	if (rc != 0) { vp_violation("loop:timer-add-failed", "duration %llu rc=%d", (unsigned long long)d, rc); R[i].state = ST_DELETED; dropud(i); return; }
	n_adds[K_TIMER]++;
}
static void op_add_fd(void)
{
	int p = (int)vp_u(&rng, 3); int i = newreg(K_FD, p); if (i < 0) return;
	int fd = eventfd(0, EFD_NONBLOCK); if (fd < 0) { R[i].state = ST_DELETED; dropud(i); return; }
	for (int k = 0; k < nR - 1; k++) if (R[k].kind == K_FD && R[k].fd == fd && R[k].fd_closed) { n_fd_reuse++; feat_fd_reuse = 1; }
	R[i].fd = fd; R[i].fd_mode = (int)vp_u(&rng, 3);
	int rc = qb_loop_poll_add(L, (enum qb_loop_priority)p, fd, POLLIN, R[i].ud, fd_cb);
	if (rc != 0) { vp_violation("loop:poll-add-failed", "fd %d rc=%d", fd, rc); R[i].state = ST_DELETED; close(fd); dropud(i); return; }
	n_adds[K_FD]++;
	if (vp_chance(&rng, 2, 3)) { uint64_t one = 1; if (write(fd, &one, 8) < 0) {} }
}
static const int SIGS[] = { SIGUSR1, SIGUSR2, SIGWINCH, SIGURG };
static int raised_total[64];
static void op_add_sig(void)
{
	int p = (int)vp_u(&rng, 3); int i = newreg(K_SIG, p); if (i < 0) return;
	R[i].signo = SIGS[vp_u(&rng, 4)];
	int fa = fp_arm(); int rc = qb_loop_signal_add(L, (enum qb_loop_priority)p, R[i].signo, R[i].ud, sig_cb, &R[i].sh);
	if (fp_done(fa, rc, "signal-add")) { R[i].state = ST_DELETED; dropud(i); return; }
	if (rc != 0) { vp_violation("loop:signal-add-failed", "rc=%d", rc); R[i].state = ST_DELETED; dropud(i); return; }
	n_adds[K_SIG]++;
}
static void op_raise(void)
{
	int s = SIGS[vp_u(&rng, 4)], any = 0;
	for (int k = 0; k < nR; k++) if (R[k].kind == K_SIG && R[k].state == ST_LIVE && R[k].signo == s) any = 1;
	if (!any) return;                       /* default action would kill us */
	int n = 1 + (int)vp_u(&rng, 3);
	for (int j = 0; j < n; j++) { raise(s); raised_total[s & 63]++; for (int k = 0; k < nR; k++) if (R[k].kind == K_SIG && R[k].state == ST_LIVE && R[k].signo == s) R[k].sig_expected++; }
}
static int pick(int kind, int state)
{
	int c[MAXREG], n = 0;
	for (int k = 0; k < nR; k++) if (R[k].kind == kind && (state < 0 || R[k].state == state)) c[n++] = k;
	return n ? c[vp_u(&rng, (uint32_t)n)] : -1;
}
static void op_delete(void)
{
	int kind = (int)vp_u(&rng, 4);
	int i = pick(kind, ST_LIVE); if (i < 0) return;
	int rc;
	switch (kind) {
	case K_JOB:
		rc = qb_loop_job_del(L, (enum qb_loop_priority)R[i].prio, R[i].ud, job_cb);
		if (rc == 0) { R[i].state = ST_DELETED; dropud(i); n_dels[K_JOB]++; }
		else vp_violation("loop:job-del-failed-on-pending", "job reg#%d rc=%d", i, rc);
		break;
	case K_TIMER:
		if (R[i].nohandle) break;
		if (vnow > R[i].hi) { n_del_queued++; feat_del_queued = 1; }     /* expired, probably queued for dispatch already */
		rc = qb_loop_timer_del(L, R[i].th);
		if (getenv("VP_TRACE")) fprintf(stderr, "it%ld del timer reg#%d th=%llx rc=%d\n", iter, i, (unsigned long long)R[i].th, rc);
		if (rc == 0) { R[i].state = ST_DELETED; dropud(i); n_dels[K_TIMER]++; }
		else vp_violation("loop:timer-del-failed-on-pending", "timer reg#%d rc=%d (expiry in [%llu,%llu], now %llu)", i, rc, (unsigned long long)R[i].lo, (unsigned long long)R[i].hi, (unsigned long long)vnow);
		break;
	case K_FD:
		rc = qb_loop_poll_del(L, R[i].fd);
		if (rc == 0) { R[i].state = ST_DELETED; dropud(i); n_dels[K_FD]++; if (vp_chance(&rng, 3, 4)) { close(R[i].fd); R[i].fd_closed = 1; } }
		else vp_violation("loop:poll-del-failed-on-watched", "fd reg#%d fd=%d rc=%d", i, R[i].fd, rc);
		break;
	default:
		if (R[i].sig_expected > R[i].sig_got) { n_del_queued++; feat_del_queued = 1; }
		rc = qb_loop_signal_del(L, R[i].sh);
		if (rc == 0) { R[i].state = ST_DELETED; dropud(i); n_dels[K_SIG]++; }
		else vp_violation("loop:signal-del-failed", "rc=%d", rc);
		break;
	}
}
static void op_stale(void)
{
	/* handles of timers that fired or were deleted (slot possibly reused) must be rejected, harmlessly */
	int i = pick(K_TIMER, vp_chance(&rng, 1, 2) ? ST_FIRED : ST_DELETED); if (i < 0 || R[i].nohandle) return;
	n_stale++; feat_stale = 1;
	int rc = qb_loop_timer_del(L, R[i].th);
	if (getenv("VP_TRACE")) fprintf(stderr, "it%ld STALE del timer reg#%d (state %d) th=%llx rc=%d\n", iter, i, R[i].state, (unsigned long long)R[i].th, rc);
	if (rc == 0) {
		/* accepted: did it hit a live timer in the reused slot? judged by the ledger later (that one must still fire) */
		vp_violation("loop:stale-timer-handle-accepted", "timer_del on the handle of %s timer reg#%d returned 0", R[i].state == ST_FIRED ? "a fired" : "a deleted", i);
	}
	if (qb_loop_timer_is_running(L, R[i].th)) vp_violation("loop:stale-timer-is-running", "reg#%d", i);
	if (qb_loop_timer_expire_time_remaining(L, R[i].th) != 0) vp_violation("loop:stale-timer-time-remaining", "reg#%d", i);
}
static void op_timer_query(void)
{
	int i = pick(K_TIMER, ST_LIVE); if (i < 0 || R[i].nohandle) return;
	n_timer_queries++;
	uint64_t rem = qb_loop_timer_expire_time_remaining(L, R[i].th);
	int run = qb_loop_timer_is_running(L, R[i].th);
	if (vnow < R[i].lo) {     /* pending and not yet due: must be reported as running */
		if (!run) vp_violation("loop:pending-timer-not-running", "reg#%d expiry>=%llu now %llu", i, (unsigned long long)R[i].lo, (unsigned long long)vnow);
		if (rem == 0) vp_violation("loop:pending-timer-no-time-remaining", "reg#%d expiry>=%llu now %llu", i, (unsigned long long)R[i].lo, (unsigned long long)vnow);
		else if (rem > R[i].hi - vnow + 1000) vp_violation("loop:time-remaining-too-large", "reg#%d remaining %llu, at most %llu", i, (unsigned long long)rem, (unsigned long long)(R[i].hi - vnow));
	}
}
static long n_mod_then_del;
static void op_mod_fd(void)
{
	int i = pick(K_FD, ST_LIVE); if (i < 0) return;
	int np = (int)vp_u(&rng, 3);
	int rc = qb_loop_poll_mod(L, (enum qb_loop_priority)np, R[i].fd, POLLIN, R[i].ud, fd_cb);
	if (rc == 0) R[i].prio = np; else vp_violation("loop:poll-mod-failed", "fd %d rc=%d", R[i].fd, rc);
	/* ... and now and then the descriptor is deleted right away: if it was queued for dispatch when its priority changed,
	 * the delete has to take it out of the right queue (the dispatch-queue audit in the wrapped epoll_wait looks at that) */
	if (rc == 0 && vp_chance(&rng, 1, 3)) {
		int rd = qb_loop_poll_del(L, R[i].fd); n_mod_then_del++;
		if (rd == 0) { R[i].state = ST_DELETED; dropud(i); n_dels[K_FD]++; if (vp_chance(&rng, 3, 4)) { close(R[i].fd); R[i].fd_closed = 1; } }
		else vp_violation("loop:poll-del-failed-on-watched", "fd reg#%d fd=%d rc=%d (right after poll_mod)", i, R[i].fd, rd);
	}
}

static long n_dup_adds, n_foreign_job_dels, n_sig_mods;
/* adding a descriptor that is registered already is refused and changes nothing (a later delete still removes the real one) */
static void op_add_dup_fd(void)
{
	int i = pick(K_FD, ST_LIVE); if (i < 0) return;
	int rc = qb_loop_poll_add(L, (enum qb_loop_priority)vp_u(&rng, 3), R[i].fd, POLLIN, R[i].ud, fd_cb);
	n_dup_adds++;
	if (rc == 0) vp_violation("loop:duplicate-poll-add-accepted", "fd %d (reg#%d) added a second time: rc 0", R[i].fd, i);
}
/* qb_loop_job_del() names a job by (function, data): a timer (pending, or expired and queued for dispatch) that happens to
 * have the same two values is not a job and must not be touched */
static void op_job_del_foreign(void)
{
	int i = pick(K_TIMER, ST_LIVE); if (i < 0) return;
	n_foreign_job_dels++;
	int rc = qb_loop_job_del(L, (enum qb_loop_priority)R[i].prio, R[i].ud, timer_cb);
	if (rc == 0) vp_violation("loop:job-del-removed-something-that-is-not-a-job", "job_del(prio %d, data and function of timer reg#%d) returned 0 (timer %s)", R[i].prio, i, vnow > R[i].hi ? "expired, probably queued" : "pending");
}
static long n_sig_renumbered;
static void op_mod_sig(void)
{
	int i = pick(K_SIG, ST_LIVE); if (i < 0) return;
	int np = (int)vp_u(&rng, 3); n_sig_mods++;
	/* half of the time the registration also moves to another signal number (possibly one that has registrations already);
	 * deliveries in flight at that moment cannot be attributed, so this registration's own count is not judged afterwards,
	 * the other registrations on both numbers are */
	int ns = vp_chance(&rng, 1, 2) ? SIGS[vp_u(&rng, 4)] : R[i].signo;
	int rc = qb_loop_signal_mod(L, (enum qb_loop_priority)np, ns, R[i].ud, sig_cb, R[i].sh);
	if (rc == 0) { R[i].prio = np; if (ns != R[i].signo) { R[i].signo = ns; R[i].sig_unjudged = 1; n_sig_renumbered++; } } else vp_violation("loop:signal-mod-failed", "signal reg#%d rc=%d", i, rc);
}

static int depth, noop_mask;
static void do_random_ops(int inside)
{
	if (mode == M_FAIR || draining) return;   /* no new work while the final drain is judged */
	{ const char *nm = getenv("VP_NOOP"); noop_mask = nm ? atoi(nm) : 0; }
	if (inside) { if (depth > 0 || !vp_chance(&rng, 1, 3)) return; n_inside_ops++; }
	depth++;
	int n = inside ? 1 + (int)vp_u(&rng, 3) : 3 + (int)vp_u(&rng, 12);
	for (int k = 0; k < n; k++) {
		int r = (int)vp_u(&rng, 100);
		vp_desc("%s op r=%d inside=%d iter=%ld", mode == M_TIMERS ? "timers" : "ledger", r, inside, iter);
		if (getenv("VP_TRACE2")) fprintf(stderr, "it%ld OP r=%d inside=%d\n", iter, r, inside);
		if (mode == M_TIMERS) {
			if (r < 45) op_add_timer(); else if (r < 60) op_delete(); else if (r < 72) op_timer_query(); else if (r < 80) op_stale(); else if (r < 88) op_add_job(); else if (r < 94) op_add_fd(); else op_timer_query();
		} else {
			if (r < 18) op_add_job(); else if (r < 34) op_add_timer(); else if (r < 44) op_add_fd(); else if (r < 50) op_add_sig(); else if (r < 58) op_raise();
			else if (r < 80) op_delete(); else if (r < 84) op_stale(); else if (r < 86) { if (!(noop_mask & 1)) op_add_dup_fd(); } else if (r < 88) { if (!(noop_mask & 2)) op_job_del_foreign(); } else if (r < 90) { if (!(noop_mask & 4)) op_mod_sig(); } else if (r < 92) op_mod_fd();
			else if (r < 94 && inside) { qb_loop_stop(L); stop_by_callback = 1; n_stop_cb++; feat_stop = 1; }
			else op_timer_query();
		}
	}
	depth--;
}

/* ---- the wrapped epoll_wait: one call = one loop iteration ------------------ */
static long fair_disp[3][4096]; static int fair_backlog[3];
static int ledger_quiescent(void)
{
	for (int k = 0; k < nR; k++) {
		if (R[k].state != ST_LIVE) continue;
		if (R[k].kind == K_JOB) return 0;
		if (R[k].kind == K_TIMER && R[k].hi < vnow + 400000000ULL) return 0;
		if (R[k].kind == K_SIG && R[k].sig_got < R[k].sig_expected) return 0;
	}
	return 1;
}
static long n_eintr, n_queue_audits; static int audit_reported;
int __wrap_epoll_wait(int epfd, struct epoll_event *ev, int maxev, int timeout)
{
	iter++; n_iters++; if (getenv("VP_TRACE2")) fprintf(stderr, "it%ld EPOLL timeout=%d draining=%d\n", iter, timeout, draining);
	/* structural invariant, looked at once per iteration at the loop's own quiescent point (it is about to poll): the number of
	 * items a level says it has to do equals the length of its dispatch queue */
	if (L && mode != M_FAIR) for (int p = 0; p < 3; p++) {
		struct qb_loop_level *lv = &((struct qb_loop *)L)->level[p]; int len = qb_list_length(&lv->job_head);
		n_queue_audits++;
		if (lv->todo != len && !audit_reported) { audit_reported = 1; char k[96]; snprintf(k, sizeof k, "loop:todo-counter-differs-from-queue-length:%s", lv->todo > len ? "counter-too-high" : "counter-too-low");
			vp_violation(k, "priority %d: todo=%d, %d items in the dispatch queue, at iteration %ld (%s)", p, lv->todo, len, iter, vp.cur_desc); }
	}
	if (jobs_recently) jobs_recently--;
	int n = __real_epoll_wait(epfd, ev, maxev, 0);
	if (mode == M_TIMERS) {
		/* earliest pending timer known to the monitor */
		uint64_t earliest = ~0ULL; int have = 0;
		for (int k = 0; k < nR; k++) if (R[k].kind == K_TIMER && R[k].state == ST_LIVE) { have = 1; if (R[k].hi < earliest) earliest = R[k].hi; }
		if (have) {
			n_epoll_checks++;
			if (timeout < 0) {
				n_negative_timeouts++;
				char k[128]; uint64_t ms = earliest > vnow ? (earliest - vnow) / 1000000 : 0;
				snprintf(k, sizeof k, "loop:blocks-indefinitely-with-timer-pending:%s", ms >= 4294967296ULL ? "expiry>=2^32ms" : ms >= 2147483648ULL ? "expiry>=2^31ms" : "expiry<2^31ms");
				vp_violation(k, "epoll_wait(timeout=%d) while the earliest timer expires in %llu ms", timeout, (unsigned long long)ms);
			} else if (earliest != ~0ULL) {
				uint64_t wake = vnow + (uint64_t)timeout * 1000000ULL;
				uint64_t allowed = earliest + 1000000ULL + (clock_res_ns > 1000000ULL ? clock_res_ns : 1000000ULL) + 50000000ULL * (timeout == 50);
				if (timeout > 0 && wake > allowed && n == 0) {
					char k[128]; snprintf(k, sizeof k, "loop:sleeps-past-next-expiry:%s", cls_desc);
					vp_violation(k, "epoll_wait(timeout=%d ms) at %llu would wake %.3f ms after the earliest expiry (<=%llu)", timeout, (unsigned long long)vnow, (double)(wake - earliest) / 1e6, (unsigned long long)earliest);
				}
			}
		}
	}
	if (mode != M_FAIR) {
		if (iter > iter_budget || (ledger_quiescent() && n == 0)) qb_loop_stop(L);
	} else {
		if (iter > iter_budget) qb_loop_stop(L);
	}
	/* a signal the loop does not manage (the application's own handler) interrupts the wait part way through */
	if (mode == M_TIMERS && n == 0 && timeout > 1 && !draining && vp_chance(&rng, 1, 12)) {
		uint64_t part = (uint64_t)timeout * 1000000ULL; part = part / 2 + vp_next(&rng) % (part / 2);
		vnow += part; n_eintr++; errno = EINTR; return -1;
	}
	if (n == 0) {
		if (timeout > 0) vnow += (uint64_t)timeout * 1000000ULL;
		else if (timeout < 0) { /* would block for ever: jump to the next timer so that the run ends, the violation is recorded above */
			uint64_t e = ~0ULL; for (int k = 0; k < nR; k++) if (R[k].kind == K_TIMER && R[k].state == ST_LIVE && R[k].hi < e) e = R[k].hi;
			if (e != ~0ULL && e > vnow) vnow = e + 1; else qb_loop_stop(L);
		}
	}
	vnow += 1000;   /* time passes */
	return n;
}

/* ---- cases ---------------------------------------------------------------- */
static void ledger_case(long kase)
{
	vp_seed(&rng, vp.seed, (uint64_t)kase);
	memset(raised_total, 0, sizeof raised_total);
	nR = 0; iter = 0; job_seq = 0; vnow = 1000ULL * 1000000000ULL + vp_u(&rng, 1000000000u);
	static const uint64_t RES[] = { 1, 1, 1000000, 4000000 };
	clock_res_ns = RES[vp_u(&rng, 4)];
	feat_del_queued = feat_stale = feat_fd_reuse = feat_stop = feat_neg_fd_open = 0;
	snprintf(cls_desc, sizeof cls_desc, "res=%lluns", (unsigned long long)clock_res_ns);
	L = qb_loop_create();
	if (!L) { vp_violation("loop:create-failed", "qb_loop_create"); return; }
	iter_budget = 150 + vp_u(&rng, 250);
	int rounds = 0;
	do_random_ops(0);
	while (iter <= iter_budget && rounds++ < 60) {
		stop_by_callback = 0;
		long cb_before = n_cb[0] + n_cb[1] + n_cb[2] + n_cb[3];
		vp_desc("%s run round=%d iter=%ld", mode == M_TIMERS ? "timers" : "ledger", rounds, iter);
		in_run = 1; qb_loop_run(L); in_run = 0;
		(void)cb_before;
		if (ledger_quiescent() && !stop_by_callback && vp_chance(&rng, 1, 2)) break;
		do_random_ops(0);
	}
	/* final drain: everything that is due must have happened */
	iter_budget = iter + 4000; stop_by_callback = 0; draining = 1;   /* enough turns for a long LOW queue (one item per three iterations); the loop is stopped as soon as the ledger is quiescent */
	for (int d = 0; d < 4; d++) { in_run = 1; qb_loop_run(L); in_run = 0; }
	for (int k = 0; k < nR; k++) {
		if (R[k].state != ST_LIVE) continue;
		if (R[k].kind == K_JOB) { vp_violation("loop:job-never-ran", "job reg#%d (priority %d, seq %ld) still pending after the drain", k, R[k].prio, R[k].seq); break; }
		if (R[k].kind == K_TIMER && R[k].hi + 100000000ULL < vnow && R[k].hi + 100000000ULL > R[k].hi) { vp_violation("loop:timer-never-fired", "timer reg#%d expiry<=%llu now %llu", k, (unsigned long long)R[k].hi, (unsigned long long)vnow); break; }
	}
	/* a handler sees the deliveries that are dispatched while it is registered: at least those raised while it
	 * was registered, at most those plus what was still undispatched when it was added (bounded by all raises) */
	for (int k = 0; k < nR; k++) if (R[k].kind == K_SIG && R[k].state == ST_LIVE && !R[k].sig_unjudged && (R[k].sig_got < R[k].sig_expected || R[k].sig_got > raised_total[R[k].signo & 63])) {
		vp_violation(R[k].sig_got < R[k].sig_expected ? "loop:signal-delivery-lost" : "loop:signal-callback-more-often-than-delivered", "signal reg#%d (sig %d): raised while registered %d, raised in total %d, callbacks %d", k, R[k].signo, R[k].sig_expected, raised_total[R[k].signo & 63], R[k].sig_got); break; }
	for (int k = 0; k < nR; k++) if (R[k].kind == K_FD && R[k].state == ST_LIVE && R[k].fd_mode != 0 && R[k].fd_dispatches == 0) {
		uint64_t v; if (read(R[k].fd, &v, 8) == 8) { vp_violation("loop:ready-fd-never-dispatched", "fd reg#%d fd=%d priority %d stayed readable and was never dispatched", k, R[k].fd, R[k].prio); break; } }
	/* tear down: signals first (handlers), then fds */
	for (int k = 0; k < nR; k++) if (R[k].state == ST_LIVE) {
		if (R[k].kind == K_SIG) qb_loop_signal_del(L, R[k].sh);
		if (R[k].kind == K_FD) { qb_loop_poll_del(L, R[k].fd); }
		if (R[k].kind == K_TIMER && !R[k].nohandle) qb_loop_timer_del(L, R[k].th);
	}
	for (int k = 0; k < nR; k++) { if (R[k].kind == K_FD && !R[k].fd_closed && R[k].fd >= 0) close(R[k].fd); dropud(k); }
	qb_loop_destroy(L); L = NULL; draining = 0;
	uint64_t h = vp_hash_u64((uint64_t)nR, (uint64_t)(feat_del_queued | feat_stale << 1 | feat_fd_reuse << 2 | feat_stop << 3 | feat_neg_fd_open << 4));
	h = vp_hash_u64(h, (uint64_t)n_cb[0] * 7 + (uint64_t)n_cb[1] * 13 + (uint64_t)iter);
	if (feat_del_queued || feat_stale || feat_fd_reuse || mode == M_TIMERS) vp_distinct(h);
	if (kase % 401 == 0) vp_sample("%s case=%ld registrations=%d iterations=%ld clock-res=%lluns delete-queued=%d stale=%d fd-reuse=%d stop-from-callback=%d", mode == M_TIMERS ? "timers" : "ledger", kase, nR, iter, (unsigned long long)clock_res_ns, feat_del_queued, feat_stale, feat_fd_reuse, feat_stop);
}

/* ---- fairness (C10) -------------------------------------------------------- */
static int fair_src_prio[200], fair_src_kind[200], fair_nsrc; static struct ud *fair_ud[200]; static int fair_fd[200];
static long fair_total[3]; static long n_item_gaps_judged;
static void fair_job(void *data);
static int32_t fair_fdcb(int32_t fd, int32_t rev, void *data);
static void fair_readd(int s)
{
	if (fair_src_kind[s] == 0) qb_loop_job_add(L, (enum qb_loop_priority)fair_src_prio[s], fair_ud[s], fair_job);
	else { qb_loop_timer_handle th; qb_loop_timer_add(L, (enum qb_loop_priority)fair_src_prio[s], 0, fair_ud[s], fair_job, &th); }
}
static long fair_last[200], fair_gap[200];
static void fair_note(int s) { int p = fair_src_prio[s]; if (iter < 4096) fair_disp[p][iter]++; fair_total[p]++; if (iter > 8 && iter - fair_last[s] > fair_gap[s]) fair_gap[s] = iter - fair_last[s]; fair_last[s] = iter; }
static void fair_job(void *data) { struct ud *u = data; fair_note(u->reg); fair_readd(u->reg); }
static int32_t fair_fdcb(int32_t fd, int32_t rev, void *data) { (void)fd; (void)rev; struct ud *u = data; fair_note(u->reg); return 0; }

static void fair_case(long kase)
{
	vp_seed(&rng, vp.seed, (uint64_t)kase);
	iter = 0; vnow = 5000ULL * 1000000000ULL; clock_res_ns = 1; nR = 0;
	memset(fair_disp, 0, sizeof fair_disp); memset(fair_total, 0, sizeof fair_total); memset(fair_last, 0, sizeof fair_last); memset(fair_gap, 0, sizeof fair_gap);
	L = qb_loop_create();
	fair_nsrc = 0; int per[3];
	for (int p = 0; p < 3; p++) { per[p] = vp_chance(&rng, 1, 6) ? 0 : 1 + (int)vp_u(&rng, vp_chance(&rng, 1, 3) ? 50 : 6); fair_backlog[p] = per[p] > 0; }
	if (!per[0] && !per[1] && !per[2]) per[0] = per[2] = 2, fair_backlog[0] = fair_backlog[2] = 1;
	char desc[200]; size_t dn = 0;
	for (int p = 0; p < 3; p++) for (int k = 0; k < per[p] && fair_nsrc < 200; k++) {
		int s = fair_nsrc++; fair_src_prio[s] = p; fair_src_kind[s] = (int)vp_u(&rng, 3); fair_ud[s] = mkud(s); fair_ud[s]->reg = s; fair_fd[s] = -1;
		if (fair_src_kind[s] == 2) {   /* always readable descriptor, never drained */
			int fd = eventfd(1, EFD_NONBLOCK); fair_fd[s] = fd;
			qb_loop_poll_add(L, (enum qb_loop_priority)p, fd, POLLIN, fair_ud[s], fair_fdcb);
		} else fair_readd(s);
	}
	for (int p = 0; p < 3; p++) { int k[3] = { 0, 0, 0 }; for (int s = 0; s < fair_nsrc; s++) if (fair_src_prio[s] == p) k[fair_src_kind[s]]++; dn += (size_t)snprintf(desc + dn, sizeof desc - dn, "%s:jobs%d/timers%d/fds%d ", p == 0 ? "LOW" : p == 1 ? "MED" : "HIGH", k[0], k[1], k[2]); }
	iter_budget = 300 + vp_u(&rng, 900);
	vp_desc("fair %s", desc);
	qb_loop_run(L);
	long last = iter < 4096 ? iter : 4095;
	/* warm-up: descriptors need an epoll round, jobs one splice; judge from iteration 6 on */
	/* a level counts as continuously backlogged when the loop itself always has an item of it at hand: a job or
	 * zero-delay timer source, or a descriptor while no more descriptors are ready than one epoll_wait reports
	 * (12); otherwise the kernel decides which descriptor is reported when */
	int total_fds = 0; for (int s2 = 0; s2 < fair_nsrc; s2++) total_fds += fair_src_kind[s2] == 2;
	for (int p = 0; p < 3; p++) if (fair_backlog[p]) {
		int always = 0; for (int s2 = 0; s2 < fair_nsrc; s2++) if (fair_src_prio[s2] == p && fair_src_kind[s2] != 2) always = 1;
		if (!always && total_fds > 10) fair_backlog[p] = 0;
	}
	for (int p = 0; p < 3; p++) if (fair_backlog[p])
		for (long i = 6; i + 2 < last; i++) if (fair_disp[p][i] + fair_disp[p][i + 1] + fair_disp[p][i + 2] == 0) {
			char k[96]; snprintf(k, sizeof k, "loop:priority-level-starved:%s", p == 0 ? "LOW" : p == 1 ? "MED" : "HIGH");
			vp_violation(k, "no dispatch at this level in iterations %ld..%ld although it is backlogged (%s)", i, i + 2, desc); break; }
	/* every single item: within a level the queue is first in, first out and a visit of the level takes 4 items, so an
	 * item of a level with n items waits about 3 * ceil(n / 4) iterations.  Jobs and zero-delay timers are always at
	 * hand; descriptors are judged while epoll can report all of them at once */
	for (int s2 = 0; s2 < fair_nsrc && last > 40; s2++) {
		int p = fair_src_prio[s2]; if (!fair_backlog[p]) continue;
		if (fair_src_kind[s2] == 2 && total_fds > 10) continue;
		int nlev = 0; for (int s3 = 0; s3 < fair_nsrc; s3++) if (fair_src_prio[s3] == p) nlev++;
		long bound = 3 * ((nlev + 3) / 4 + 2) + 3; long gap = fair_gap[s2]; if (last - fair_last[s2] > gap) gap = last - fair_last[s2];
		n_item_gaps_judged++;
		if (gap > bound) { char k[96]; snprintf(k, sizeof k, "loop:item-starved-within-its-level:%s", fair_src_kind[s2] == 0 ? "job" : fair_src_kind[s2] == 1 ? "timer" : "descriptor");
			vp_violation(k, "a %s item waited %ld iterations (bound %ld for the %d items of its level) (%s)", p == 0 ? "LOW" : p == 1 ? "MED" : "HIGH", gap, bound, nlev, desc); break; }
	}
	/* ratio over whole rounds of three iterations, all backlogged levels */
	long sum[3] = { 0, 0, 0 }; long from = 6, to = from + ((last - from) / 3) * 3;
	for (int p = 0; p < 3; p++) for (long i = from; i < to; i++) sum[p] += fair_disp[p][i] > 0;  /* dispatch opportunities used */
	for (int p = 2; p > 0; p--) for (int q = p - 1; q >= 0; q--) if (fair_backlog[p] && fair_backlog[q] && sum[p] + 1 < sum[q]) {
		vp_violation("loop:lower-priority-served-more-often", "iterations with a dispatch: %s=%ld %s=%ld over %ld iterations (%s)", p == 2 ? "HIGH" : "MED", sum[p], q == 1 ? "MED" : "LOW", sum[q], to - from, desc); }
	int nb = fair_backlog[0] + fair_backlog[1] + fair_backlog[2];
	if (nb >= 2) vp_distinct(vp_hash_bytes(99, desc, dn));
	vp_count("dispatch_queue_audits", n_queue_audits); vp_count("waits_interrupted_by_a_signal", n_eintr); vp_count("items_judged_for_their_own_waiting_time", n_item_gaps_judged); vp_count("fair_dispatches_low", fair_total[0]); vp_count("fair_dispatches_med", fair_total[1]); vp_count("fair_dispatches_high", fair_total[2]);
	if (kase % 101 == 0) vp_sample("fair case=%ld %s iterations=%ld dispatches L/M/H=%ld/%ld/%ld iterations-with-dispatch L/M/H=%ld/%ld/%ld", kase, desc, iter, fair_total[0], fair_total[1], fair_total[2], sum[0], sum[1], sum[2]);
	for (int s = 0; s < fair_nsrc; s++) { if (fair_fd[s] >= 0) { qb_loop_poll_del(L, fair_fd[s]); close(fair_fd[s]); } }
	qb_loop_destroy(L); L = NULL;
	for (int s = 0; s < fair_nsrc; s++) free(fair_ud[s]);
}

int main(int argc, char **argv)
{
	vp_init(argc, argv);
	const char *m = vp_arg("--mode", "ledger");
	mode = !strcmp(m, "timers") ? M_TIMERS : !strcmp(m, "fair") ? M_FAIR : M_LEDGER;
	for (long k = vp.case_from; k < vp.case_to; k++) { vp_begin_case(k); if (mode == M_FAIR) fair_case(k); else ledger_case(k); }
	vp_count("loop_iterations", n_iters); vp_count("job_callbacks", n_cb[0]); vp_count("timer_callbacks", n_cb[1]); vp_count("fd_callbacks", n_cb[2]); vp_count("signal_callbacks", n_cb[3]);
	vp_count("adds", n_adds[0] + n_adds[1] + n_adds[2] + n_adds[3]); vp_count("deletes", n_dels[0] + n_dels[1] + n_dels[2] + n_dels[3]);
	vp_count("deletes_of_probably_queued_items", n_del_queued); vp_count("stale_handle_uses", n_stale); vp_count("fd_numbers_reused", n_fd_reuse);
	vp_count("ops_from_inside_callbacks", n_inside_ops); vp_count("stops_from_callbacks", n_stop_cb); vp_count("epoll_timeouts_checked", n_epoll_checks);
	vp_count("negative_return_after_self_delete", feat_neg_after_selfdel); vp_count("duplicate_descriptor_adds_refused", n_dup_adds); vp_count("job_del_naming_a_timer", n_foreign_job_dels);
	vp_count("registrations_that_ran_out_of_memory", n_enomem_adds); vp_count("timers_added_without_a_handle", n_nohandle_timers); vp_count("signal_priority_changes", n_sig_mods); vp_count("signal_registrations_moved_to_another_number", n_sig_renumbered); vp_count("descriptor_priority_change_then_delete", n_mod_then_del); vp_count("descriptor_added_in_retiring_callback", n_readd_in_retire);
	vp_count("timer_queries", n_timer_queries); vp_count("usleep_calls_by_the_loop", n_usleep);
	vp_finish();
	return 0;
}
