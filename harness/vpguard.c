/* Guard zones behind every ring mapping.
 *
 * ASan does not poison mmap()ed memory, so an out-of-range ring index would
 * silently land in whatever happens to be mapped behind the ring.  libqb
 * reserves the double mapping with mmap(NULL, 2*bytes, PROT_NONE, MAP_ANONYMOUS..)
 * (qb_sys_circular_mmap); this wrapper enlarges exactly that reservation by a
 * PROT_NONE MAP_NORESERVE tail, so any index beyond the double mapping faults
 * deterministically.  Ring indices are 32-bit word indices, hence 16 GiB + a
 * chunk length covers every reachable offset.
 */
#define _GNU_SOURCE
#include <sys/mman.h>
#include <stdint.h>
#include <stddef.h>
#include <stdlib.h>
#include <pthread.h>
#include <errno.h>
#include <unistd.h>
#include <sys/syscall.h>

void *__real_mmap(void *, size_t, int, int, int, off_t);
int __real_munmap(void *, size_t);

size_t vpguard_tail = (size_t)24 << 30;
long vpguard_reservations;

#define NRES 4096
static struct { void *addr; size_t len; } res[NRES];
static pthread_mutex_t lk = PTHREAD_MUTEX_INITIALIZER;

/* failpoint: the k-th mmap() made by the program (not by the sanitizer run-time) fails with ENOMEM */
int vpguard_fail_mmap_countdown;
void *__wrap_mmap(void *addr, size_t len, int prot, int flags, int fd, off_t off)
{
	if (vpguard_fail_mmap_countdown > 0 && --vpguard_fail_mmap_countdown == 0) { errno = ENOMEM; return MAP_FAILED; }
	if (addr == NULL && prot == PROT_NONE && (flags & MAP_ANONYMOUS) && fd == -1 && vpguard_tail) {
		/* raw syscall: the sanitizer's mmap interceptor would walk the shadow of the whole 24 GiB range */
		void *p = (void *)syscall(SYS_mmap, NULL, len + vpguard_tail, PROT_NONE, flags | MAP_NORESERVE, -1, 0);
		if (p == MAP_FAILED) return __real_mmap(addr, len, prot, flags, fd, off);
		pthread_mutex_lock(&lk);
		for (int i = 0; i < NRES; i++)
			if (!res[i].addr) { res[i].addr = p; res[i].len = len; break; }
		vpguard_reservations++;
		pthread_mutex_unlock(&lk);
		return p;
	}
	return __real_mmap(addr, len, prot, flags, fd, off);
}

int __wrap_munmap(void *addr, size_t len)
{
	size_t extra = 0;
	pthread_mutex_lock(&lk);
	for (int i = 0; i < NRES; i++)
		if (res[i].addr == addr && addr) {
			if (len >= res[i].len) { extra = vpguard_tail; res[i].addr = NULL; }
			break;
		}
	pthread_mutex_unlock(&lk);
	if (extra) syscall(SYS_munmap, (char *)addr + len, extra);
	return __real_munmap(addr, len);
}
