/* C20: differential test of the handle database against a refcount model
 * with a destructor ledger (asan flavour). */
#include "vp.h"
#include <qb/qbdefs.h>
#include <qb/qbhdb.h>

#define MAXH 400
struct mh {
	qb_handle_t h;
	void *inst;
	int refs;        /* model: 1 + gets - puts (destroy counts as a put) */
	int destroyed;   /* destroy was called */
	int dtor_calls;
	int released;    /* refs reached 0 */
	uint32_t id;
};
static struct mh M[MAXH]; static int nM;
static struct qb_hdb db;
static long n_ops, n_stale_rejected, n_reuse, n_forged, n_iter, n_dtor, n_get_ok;
static int in_op_expect_dtor = -1; /* index whose destructor may run during the current call */

static void dtor(void *inst)
{
	uint32_t id; memcpy(&id, inst, 4);
	n_dtor++;
	int found = -1;
	for (int i = 0; i < nM; i++) if (M[i].id == id && M[i].inst == inst) { found = i; break; }
	if (found < 0) { vp_violation("hdb:destructor-for-unknown-object", "destructor called with %p (id %u)", inst, id); return; }
	M[found].dtor_calls++;
	if (M[found].dtor_calls > 1)
		vp_violation("hdb:destructor-twice", "object id=%u destructed %d times", id, M[found].dtor_calls);
	if (found != in_op_expect_dtor)
		vp_violation("hdb:destructor-at-wrong-moment", "object id=%u destructed while model refs=%d (op on id=%d)", id,
			     M[found].refs, in_op_expect_dtor >= 0 ? (int)M[in_op_expect_dtor].id : -1);
}

/* a put-like op on model object i: returns 1 if this is the releasing one */
static int model_put(int i)
{
	M[i].refs--;
	if (M[i].refs == 0) { M[i].released = 1; return 1; }
	return 0;
}

static void after_release_check(int i, const char *op)
{
	if (M[i].released && M[i].dtor_calls != 1)
		vp_violation("hdb:destructor-not-run-at-zero", "%s dropped the last reference of id=%u but destructor calls=%d", op,
			     M[i].id, M[i].dtor_calls);
	if (!M[i].released && M[i].dtor_calls != 0)
		vp_violation("hdb:destructor-early", "%s: id=%u destructed with model refs=%d", op, M[i].id, M[i].refs);
}

static int pick_live(vprng_t *r) /* refs > 0 */
{
	int c[MAXH], n = 0;
	for (int i = 0; i < nM; i++) if (M[i].refs > 0) c[n++] = i;
	return n ? c[vp_u(r, (uint32_t)n)] : -1;
}
static int pick_released(vprng_t *r)
{
	int c[MAXH], n = 0;
	for (int i = 0; i < nM; i++) if (M[i].released) c[n++] = i;
	return n ? c[vp_u(r, (uint32_t)n)] : -1;
}

/* failpoint: the next allocation made while armed fails (the harness arms it only around one library call) */
static int fail_alloc_armed; static long n_enomem;
void *__real_malloc(size_t n); void *__real_calloc(size_t a, size_t b);
void *__wrap_malloc(size_t n) { if (fail_alloc_armed) { fail_alloc_armed = 0; errno = ENOMEM; return NULL; } return __real_malloc(n); }
void *__wrap_calloc(size_t a, size_t b) { if (fail_alloc_armed) { fail_alloc_armed = 0; errno = ENOMEM; return NULL; } return __real_calloc(a, b); }
static void run_case(long kase)
{
	vprng_t r; vp_seed(&r, vp.seed, (uint64_t)kase);
	nM = 0;
	qb_hdb_create(&db);
	db.destructor = vp_chance(&r, 7, 8) ? dtor : NULL;
	int has_dtor = db.destructor != NULL;
	int nops = 60 + (int)vp_u(&r, 240);
	uint32_t next_id = 1;
	uint64_t hh = 0; int saw_stale = 0, saw_reuse = 0, saw_pending = 0;
	char tr[600]; size_t tn = 0; tr[0] = 0;
#define TR(...) do { if (tn < sizeof tr - 48) tn += (size_t)snprintf(tr + tn, 48, __VA_ARGS__); } while (0)
	for (int op = 0; op < nops; op++) {
		int k = (int)vp_u(&r, 100);
		n_ops++;
		in_op_expect_dtor = -1;
		vp_desc("op=%d kind=%d nM=%d", op, k, nM);
		if (k < 22 && nM < MAXH) { /* create */
			int sz = 8 + (int)vp_u(&r, 120);
			qb_handle_t h = 0;
			if (vp_chance(&r, 1, 8)) {
				/* the allocation of the object fails: -ENOMEM, and it is as if the call had not been made */
				qb_handle_t sentinel = 0x5a5a5a5a5a5a5a5aULL; h = sentinel; n_enomem++;
				fail_alloc_armed = 1; int rc0 = qb_hdb_handle_create(&db, sz, &h); int fired = !fail_alloc_armed; fail_alloc_armed = 0;
				if (!fired) { vp_diag("hdb:failpoint-not-reached", "create made no allocation"); }
				else {
					if (rc0 != -ENOMEM) vp_violation("hdb:create-enomem-not-reported", "create with a failing allocation returned %d", rc0);
					if (rc0 != 0 && h != sentinel) {
						/* a handle nobody was given must not resolve */
						void *pi = NULL; if (qb_hdb_handle_get(&db, h, &pi) == 0) { vp_violation("hdb:failed-create-left-a-live-handle", "get on the value left in handle_out succeeds"); qb_hdb_handle_put(&db, h); }
					}
					if (rc0 == 0) { qb_hdb_handle_put(&db, h); qb_hdb_handle_destroy(&db, h); }
				}
				TR("E ");
				continue;
			}
			int rc = qb_hdb_handle_create(&db, sz, &h);
			if (rc != 0) { vp_violation("hdb:create-failed", "create(size %d) returned %d", sz, rc); continue; }
			void *inst = NULL;
			rc = qb_hdb_handle_get(&db, h, &inst);
			if (rc != 0 || !inst) { vp_violation("hdb:get-fails-on-live", "get right after create returned %d", rc); continue; }
			for (int b = 0; b < sz; b++) if (((unsigned char *)inst)[b]) { vp_violation("hdb:instance-not-zeroed", "byte %d", b); break; }
			memcpy(inst, &next_id, 4);
			/* slot reuse? */
			uint32_t slot = (uint32_t)(h & 0xffffffffu);
			for (int i = 0; i < nM; i++) {
				if ((uint32_t)(M[i].h & 0xffffffffu) == slot) {
					if (M[i].refs > 0) vp_violation("hdb:slot-handed-out-twice", "slot %u given to new object while id=%u has refs=%d", slot, M[i].id, M[i].refs);
					else { n_reuse++; saw_reuse = 1; }
					if (M[i].h == h) vp_diag("hdb:identical-handle-reissued", "check word collided for slot %u", slot);
				}
			}
			M[nM].h = h; M[nM].inst = inst; M[nM].refs = 2; M[nM].destroyed = 0; M[nM].dtor_calls = 0; M[nM].released = 0; M[nM].id = next_id++;
			int i = nM++;
			qb_hdb_handle_put(&db, h); M[i].refs--;
			TR("C%u ", M[i].id);
		} else if (k < 40) { /* get on live / pending */
			int i = pick_live(&r); if (i < 0) continue;
			void *inst = (void *)1;
			int rc = qb_hdb_handle_get(&db, M[i].h, &inst);
			if (M[i].destroyed) {
				saw_pending = 1;
				if (rc == 0) { vp_violation("hdb:get-after-destroy-succeeds", "id=%u destroyed, refs=%d, get returned 0", M[i].id, M[i].refs); M[i].refs++; }
				else n_stale_rejected++;
			} else {
				if (rc != 0 || inst != M[i].inst)
					vp_violation("hdb:get-fails-on-live", "id=%u get rc=%d inst=%p want %p", M[i].id, rc, inst, M[i].inst);
				else { M[i].refs++; n_get_ok++; }
			}
			TR("G%u:%d ", M[i].id, rc);
		} else if (k < 56) { /* put */
			int i = pick_live(&r); if (i < 0) continue;
			if (M[i].refs == 1 && !M[i].destroyed && vp_chance(&r, 2, 3)) continue; /* usually release via destroy */
			in_op_expect_dtor = i;
			int rel = model_put(i);
			int rc = qb_hdb_handle_put(&db, M[i].h);
			if (rc != 0) vp_violation("hdb:put-fails-on-referenced", "id=%u put returned %d", M[i].id, rc);
			if (has_dtor) after_release_check(i, "put");
			(void)rel;
			TR("P%u ", M[i].id);
		} else if (k < 68) { /* destroy */
			int i = pick_live(&r); if (i < 0) continue;
			if (M[i].destroyed && vp_chance(&r, 3, 4)) continue;
			in_op_expect_dtor = i;
			M[i].destroyed = 1;
			model_put(i);
			int rc = qb_hdb_handle_destroy(&db, M[i].h);
			if (rc != 0) vp_violation("hdb:destroy-fails-on-live", "id=%u destroy returned %d", M[i].id, rc);
			if (has_dtor) after_release_check(i, "destroy");
			TR("D%u ", M[i].id);
		} else if (k < 76) { /* refcount */
			int i = pick_live(&r); if (i < 0) continue;
			int rc = qb_hdb_handle_refcount_get(&db, M[i].h);
			if (rc != M[i].refs)
				vp_violation("hdb:refcount-mismatch", "id=%u refcount_get=%d model=%d", M[i].id, rc, M[i].refs);
		} else if (k < 88) { /* stale handle ops: get must fail; put/destroy must not disturb anybody */
			int i = pick_released(&r); if (i < 0) continue;
			saw_stale = 1;
			int what = (int)vp_u(&r, 4);
			void *inst = (void *)1; int rc;
			switch (what) {
			case 0: rc = qb_hdb_handle_get(&db, M[i].h, &inst);
				if (rc == 0) vp_violation("hdb:stale-handle-resolves", "released id=%u (handle %llx) resolved to %p", M[i].id, (unsigned long long)M[i].h, inst);
				else n_stale_rejected++;
				break;
			case 1: rc = qb_hdb_handle_put(&db, M[i].h);
				if (rc == 0) vp_violation("hdb:stale-put-accepted", "put on released id=%u returned 0", M[i].id); else n_stale_rejected++;
				break;
			case 2: rc = qb_hdb_handle_destroy(&db, M[i].h);
				if (rc == 0) vp_violation("hdb:stale-destroy-accepted", "destroy on released id=%u returned 0", M[i].id); else n_stale_rejected++;
				break;
			default: rc = qb_hdb_handle_refcount_get(&db, M[i].h);
				if (rc >= 0) vp_violation("hdb:stale-refcount-accepted", "refcount_get on released id=%u returned %d", M[i].id, rc); else n_stale_rejected++;
			}
			TR("S%u.%d ", M[i].id, what);
		} else if (k < 94) { /* forged: right slot wrong check, huge slot, negative slot */
			n_forged++;
			qb_handle_t f;
			int i = nM ? (int)vp_u(&r, (uint32_t)nM) : -1;
			switch (vp_u(&r, 4)) {
			case 0: f = i >= 0 ? (M[i].h ^ ((uint64_t)(1 + vp_u(&r, 0x7ffffffe)) << 32)) : 77; break;
			case 1: f = ((uint64_t)(1 + vp_u(&r, 0x7fffffff)) << 32) | (100000u + vp_u(&r, 1u << 30)); break;
			case 2: f = ((uint64_t)(1 + vp_u(&r, 0x7fffffff)) << 32) | (0x80000000u + vp_u(&r, 1u << 30)); break;
			default: f = ((uint64_t)(1 + vp_u(&r, 0x7fffffff)) << 32) | vp_u(&r, (uint32_t)nM + 3); break;
			}
			int clash = 0; for (int j = 0; j < nM; j++) if (M[j].h == f) clash = 1;
			if (clash) continue;
			void *inst = (void *)1;
			int rc = qb_hdb_handle_get(&db, f, &inst);
			if (rc == 0) {
				vp_violation("hdb:forged-handle-resolves", "never-issued handle %llx resolved to %p", (unsigned long long)f, inst);
				qb_hdb_handle_put(&db, f);
			}
			TR("F ");
		} else { /* iterate: must visit exactly the not-destroyed objects; each visit takes a reference */
			n_iter++;
			int seen[MAXH]; memset(seen, 0, sizeof seen);
			qb_hdb_iterator_reset(&db);
			void *inst; qb_handle_t h;
			int guard = 0;
			while (qb_hdb_iterator_next(&db, &inst, &h) == 0 && guard++ < 2 * MAXH) {
				int f = -1;
				for (int i = 0; i < nM; i++) if (M[i].inst == inst && M[i].refs > 0 && !M[i].destroyed) { f = i; break; }
				if (f < 0) {
					vp_violation("hdb:iteration-yields-destroyed-or-unknown", "iterator returned %p handle %llx", inst, (unsigned long long)h);
					qb_hdb_handle_put(&db, h);
					continue;
				}
				if (h != M[f].h) vp_violation("hdb:iteration-wrong-handle", "id=%u: iterator handle %llx, created %llx", M[f].id, (unsigned long long)h, (unsigned long long)M[f].h);
				if (seen[f]++) vp_violation("hdb:iteration-duplicate", "id=%u visited twice", M[f].id);
				M[f].refs++;
				if (vp_chance(&r, 3, 4)) { qb_hdb_handle_put(&db, h); M[f].refs--; }
			}
			for (int i = 0; i < nM; i++)
				if (M[i].refs > 0 && !M[i].destroyed && !seen[i])
					vp_violation("hdb:iteration-misses-live", "id=%u (refs %d) not visited", M[i].id, M[i].refs);
			TR("I ");
		}
		/* no-check conversion resolves live slots */
		if (op % 17 == 0) {
			int i = pick_live(&r);
			if (i >= 0 && !M[i].destroyed) {
				void *inst = NULL;
				qb_handle_t nc = qb_hdb_nocheck_convert(qb_hdb_base_convert(M[i].h));
				int rc = qb_hdb_handle_get(&db, nc, &inst);
				if (rc != 0 || inst != M[i].inst) vp_violation("hdb:nocheck-get-fails", "id=%u rc=%d", M[i].id, rc);
				else { rc = qb_hdb_handle_put(&db, nc); if (rc) vp_violation("hdb:nocheck-put-fails", "rc=%d", rc); }
			}
		}
	}
	/* drain: release everything, each destructor exactly once */
	for (int i = 0; i < nM; i++) {
		while (M[i].refs > 0) {
			in_op_expect_dtor = i;
			if (!M[i].destroyed) { M[i].destroyed = 1; model_put(i); qb_hdb_handle_destroy(&db, M[i].h); }
			else { model_put(i); qb_hdb_handle_put(&db, M[i].h); }
		}
		if (has_dtor && M[i].dtor_calls != 1)
			vp_violation("hdb:destructor-count-at-end", "id=%u destructor calls=%d", M[i].id, M[i].dtor_calls);
	}
	in_op_expect_dtor = -1;
	qb_hdb_destroy(&db);
	hh = vp_hash_u64(vp_hash_bytes(14695981039346656037ULL, tr, tn > 200 ? 200 : tn), (uint64_t)(saw_stale | saw_reuse << 1 | saw_pending << 2));
	if (saw_stale || saw_reuse || saw_pending) vp_distinct(hh);
	if (kase % 499 == 0) vp_sample("case=%ld objects=%d ops=%d stale=%d reuse=%d pending=%d: %s", kase, nM, nops, saw_stale, saw_reuse, saw_pending, tr);
}

int main(int argc, char **argv)
{
	vp_init(argc, argv);
	for (long k = vp.case_from; k < vp.case_to; k++) { vp_begin_case(k); run_case(k); }
	vp_count("ops", n_ops); vp_count("stale_or_pending_rejected", n_stale_rejected); vp_count("slot_reuses", n_reuse);
	vp_count("forged_handles_tried", n_forged); vp_count("iterations", n_iter); vp_count("destructor_calls", n_dtor);
	vp_count("creates_with_failing_allocation", n_enomem);
	vp_count("gets_ok", n_get_ok);
	vp_finish();
	return 0;
}
