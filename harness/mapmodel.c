/* C17 / C18: differential test of hashtable, skiplist and trie against a
 * dictionary model with a notifier ledger (asan flavour).
 *
 *   --impl hash|skip|trie
 *   --iters 0 : C17 (no iterator stays open across operations; notifier ledger judged per op)
 *   --iters 1 : C18 (up to 4 iterators open while the map is mutated)
 */
#include "vp.h"
#include <qb/qbdefs.h>
#include <qb/qbmap.h>

enum { HASH, SKIP, TRIE };
static int impl; static int with_iters;
static int hazard_mask; /* 1: never put while an iterator is open, 2: never rm an entry an iterator is parked on, 4: never rm a key twice within one open-iterator window */

#define MAXK 72
#define MAXV 4096
#define MAXN 12
#define MAXREC 256

static int nkeys;
static char *kcopy[MAXK][3];      /* two heap copies (exact size) of every key string handed to the map, [2] is the model's own */
static int kpoison[MAXK][2], kheld[MAXK]; static long n_poisoned;
/* key storage belongs to the caller: after a replacing put through another pointer, or after a remove, the map must not
 * look at the old storage again.  The harness scribbles over storage the map has no business with and repairs it
 * before handing it in again */
static char *K(int k, int c) { if (kpoison[k][c]) { memcpy(kcopy[k][c], kcopy[k][2], strlen(kcopy[k][2]) + 1); kpoison[k][c] = 0; } return kcopy[k][c]; }
static void Kpoison(int k, int c) { size_t n = strlen(kcopy[k][2]); if (n == 0 || kheld[k] == c) return; memset(kcopy[k][c], 0x7e, n); kcopy[k][c][0] ^= 0x15; kpoison[k][c] = 1; n_poisoned++; }
static size_t klen[MAXK];

struct val { int id; int in_map; int freed; };
static struct val vals[MAXV]; static int nvals;

static int model[MAXK];           /* value id or -1 */
static int ever_put[MAXK];
static int model_count;

/* notifier registry (model side) */
struct notif { int active; int key; /* -1 global */ int events; int ud; };
static struct notif N[MAXN]; static int nN;
static int ud_cookie[MAXN];       /* user_data = &ud_cookie[i] */

struct rec { int event; int key; int oldv; int newv; int ud; };
static struct rec got[MAXREC]; static int ngot;
static struct rec want[MAXREC]; static int nwant;

static long n_ops, n_puts, n_rms, n_gets, n_iters_full, n_notifs, n_frees, n_pref, n_foreach_abandon, n_absent_rm,
	n_iter_open, n_rm_parked, n_iter_abandoned, n_signed_order;

/* C18: which hazardous ingredients has this history used so far?  Part of every
 * behavioural violation key so that a known class does not hide a new one:
 * P = put while an iterator was open, R = rm of an entry an iterator is parked on,
 * D = second rm of a key already removed while iterators were open, A = iterator abandoned */
static int featP, featR, featD, featA;
static const char *mkey(const char *base)
{
	static char b[8][96]; static int n;
	if (!with_iters) return base;
	char *o = b[n++ & 7];
	snprintf(o, 96, "%s:hist=%s%s%s%s", base, featP ? "P" : "", featR ? "R" : "", featD ? "D" : "", "");
	return o;
}

static int key_index(const char *k)
{
	for (int i = 0; i < nkeys; i++) if (k == kcopy[i][0] || k == kcopy[i][1]) return i;
	for (int i = 0; i < nkeys; i++) if (strcmp(k, kcopy[i][2]) == 0) return i + 1000; /* right content, foreign pointer */
	return -1;
}
static int val_index(void *v)
{
	if (v == NULL) return -1;
	if ((struct val *)v < vals || (struct val *)v >= vals + MAXV) return -2;
	return (int)((struct val *)v - vals);
}

static int notifier_mutates, in_open_iter_next, nested_rm; static long n_nested_rm;
static void nested_remove_from_notifier(void);
static void on_notify(uint32_t event, char *key, void *oldv, void *newv, void *ud)
{
	n_notifs++;
	int ki = key ? key_index(key) : -1;
	if (ki >= 1000) ki -= 1000;
	if (ngot < MAXREC) {
		got[ngot].event = (int)event; got[ngot].key = ki; got[ngot].oldv = val_index(oldv);
		got[ngot].newv = val_index(newv); got[ngot].ud = ud ? (int)((int *)ud - ud_cookie) : -1;
		ngot++;
	}
	if (event == QB_MAP_NOTIFY_FREE) {
		int vi = val_index(oldv);
		n_frees++;
		if (vi < 0) { vp_violation(mkey("map:free-notifier-bad-value"), "FREE notification with unknown old value %p", oldv); return; }
		if (vals[vi].freed) vp_violation(mkey("map:value-freed-twice"), "value id=%d released twice", vi);
		vals[vi].freed++;
		/* a notifier that itself changes the map: the release of an entry (delivered inside qb_map_iter_next() when the
		 * iterator was the last one holding it) makes the application remove another entry */
		if (notifier_mutates && in_open_iter_next && !nested_rm) { nested_rm = 1; nested_remove_from_notifier(); nested_rm = 0; }
	}
}

static int is_prefix(int p, int k) { return klen[p] <= klen[k] && memcmp(kcopy[p][2], kcopy[k][2], klen[p]) == 0; }

/* model: which notifications does event e on key k produce? */
static void expect_event(int e, int k, int oldv, int newv)
{
	if (e == QB_MAP_NOTIFY_INSERTED && impl != TRIE) return; /* header: INSERTED only valid on tries; not judged */
	for (int i = 0; i < nN; i++) {
		if (!N[i].active) continue;
		int hit = 0;
		if (N[i].key < 0) hit = 1;
		else if (N[i].key == k) hit = 1;
		else if (impl == TRIE && (N[i].events & QB_MAP_NOTIFY_RECURSIVE) && is_prefix(N[i].key, k)) hit = 1;
		if (!hit) continue;
		if ((N[i].events & e) && nwant < MAXREC) want[nwant++] = (struct rec){ e, k, oldv, newv, i };
		if ((e == QB_MAP_NOTIFY_DELETED || e == QB_MAP_NOTIFY_REPLACED) && (N[i].events & QB_MAP_NOTIFY_FREE) && nwant < MAXREC)
			want[nwant++] = (struct rec){ QB_MAP_NOTIFY_FREE, k, oldv, newv, i };
	}
}

static int rec_eq(const struct rec *a, const struct rec *b)
{ return a->event == b->event && a->key == b->key && a->oldv == b->oldv && a->newv == b->newv && a->ud == b->ud; }

static int vtrace = -1;
static void compare_notifs(const char *op, int k)
{
	if (vtrace < 0) vtrace = getenv("VP_TRACE") != NULL;
	if (vtrace) {
		fprintf(stderr, "  %s key#%d got:", op, k);
		for (int i = 0; i < ngot; i++) fprintf(stderr, " (e%d k%d o%d n%d u%d)", got[i].event, got[i].key, got[i].oldv, got[i].newv, got[i].ud);
		fprintf(stderr, " want:");
		for (int i = 0; i < nwant; i++) fprintf(stderr, " (e%d k%d o%d n%d u%d)", want[i].event, want[i].key, want[i].oldv, want[i].newv, want[i].ud);
		fprintf(stderr, "\n");
	}
	int used[MAXREC]; memset(used, 0, sizeof used);
	int ignore_ins = impl != TRIE;
	for (int i = 0; i < ngot; i++) {
		if (ignore_ins && got[i].event == QB_MAP_NOTIFY_INSERTED) continue;
		int f = -1;
		for (int j = 0; j < nwant; j++) if (!used[j] && rec_eq(&got[i], &want[j])) { f = j; break; }
		if (f < 0) {
			vp_violation(mkey(got[i].event == QB_MAP_NOTIFY_FREE ? "map:unexpected-free-notification" : "map:unexpected-notification"),
				     "%s key#%d: got event=%d key#%d old=%d new=%d ud=%d not expected by the model", op, k, got[i].event,
				     got[i].key, got[i].oldv, got[i].newv, got[i].ud);
			return;
		}
		used[f] = 1;
	}
	for (int j = 0; j < nwant; j++) if (!used[j]) {
		vp_violation(mkey(want[j].event == QB_MAP_NOTIFY_FREE ? "map:missing-free-notification" : "map:missing-notification"),
			     "%s key#%d: expected event=%d key#%d old=%d new=%d ud=%d never delivered", op, k, want[j].event, want[j].key,
			     want[j].oldv, want[j].newv, want[j].ud);
		return;
	}
}

/* ---- key pools ---------------------------------------------------- */
static void add_key(const char *s, size_t n)
{
	if (nkeys >= MAXK || n == 0) return;
	for (int i = 0; i < nkeys; i++) if (klen[i] == n && memcmp(kcopy[i][2], s, n) == 0) return;
	kpoison[nkeys][0] = kpoison[nkeys][1] = 0; kheld[nkeys] = -1;
	for (int c = 0; c < 3; c++) { kcopy[nkeys][c] = malloc(n + 1); memcpy(kcopy[nkeys][c], s, n); kcopy[nkeys][c][n] = 0; }
	klen[nkeys++] = n;
}
static int pool_style;
static void make_pool(vprng_t *r)
{
	char b[400];
	nkeys = 0;
	pool_style = (int)vp_u(r, 6);
	switch (pool_style) {
	case 0: /* all strings over {a,b} up to length 5 */
		for (int len = 1; len <= 5; len++) for (int m = 0; m < (1 << len); m++) { for (int i = 0; i < len; i++) b[i] = (m >> i & 1) ? 'b' : 'a'; add_key(b, (size_t)len); }
		break;
	case 1: /* chains of prefixes */
		for (int c = 0; c < 4; c++) { int L = 3 + (int)vp_u(r, 12); for (int i = 0; i < L; i++) b[i] = (char)('a' + vp_u(r, 3)); for (int l = 1; l <= L; l++) add_key(b, (size_t)l); }
		break;
	case 2: /* bytes >= 0x80, 0x7f, 0x01 mixed with ascii */
		for (int k = 0; k < 50; k++) { int L = 1 + (int)vp_u(r, 4); for (int i = 0; i < L; i++) { static const unsigned char alpha[] = { 0x01, 0x7f, 0x80, 0xff, 'a', 'b', 0xc3, 0xa9 }; b[i] = (char)alpha[vp_u(r, 8)]; } add_key(b, (size_t)L); }
		break;
	case 3: /* long keys sharing long prefixes */
		for (int k = 0; k < 24; k++) { int L = 250 + (int)vp_u(r, 60); memset(b, 'x', (size_t)L); b[100] = (char)('0' + k % 3); b[200] = (char)('0' + k % 5); b[L - 1] = (char)('A' + k); add_key(b, (size_t)L); if (k % 4 == 0) add_key(b, 150); }
		break;
	case 4: /* single characters + two-char keys */
		for (int c = 33; c < 80 && nkeys < 40; c += 1 + (int)vp_u(r, 3)) { b[0] = (char)c; add_key(b, 1); }
		for (int k = 0; k < 25; k++) { b[0] = (char)(33 + vp_u(r, 20)); b[1] = (char)(33 + vp_u(r, 20)); add_key(b, 2); }
		break;
	default: /* random words, many collide in a small hashtable */
		for (int k = 0; k < 64; k++) { int L = 1 + (int)vp_u(r, 10); for (int i = 0; i < L; i++) b[i] = (char)('a' + vp_u(r, 26)); add_key(b, (size_t)L); }
		break;
	}
}
static void free_pool(void) { for (int i = 0; i < nkeys; i++) { free(kcopy[i][0]); free(kcopy[i][1]); free(kcopy[i][2]); } nkeys = 0; }

static int cmp_unsigned(int a, int b) { return strcmp(kcopy[a][2], kcopy[b][2]); }
static int cmp_signed(int a, int b)
{
	const signed char *x = (const signed char *)kcopy[a][2], *y = (const signed char *)kcopy[b][2];
	for (;; x++, y++) { if (*x != *y) { if (!*x) return -1; if (!*y) return 1; return *x < *y ? -1 : 1; } if (!*x) return 0; }
}

static qb_map_t *m;

static int new_val(void) { if (nvals >= MAXV) return -1; vals[nvals].id = nvals; vals[nvals].in_map = 0; vals[nvals].freed = 0; return nvals++; }

/* complete iteration compared with the model; prefix >= 0: trie prefix iterator */
static void full_iteration(int prefix, const char *why)
{
	int seen[MAXK]; memset(seen, 0, sizeof seen);
	int order[MAXK], no = 0;
	qb_map_iter_t *it = prefix >= 0 ? qb_map_pref_iter_create(m, K(prefix, 0)) : qb_map_iter_create(m);
	if (!it) { vp_violation(mkey("map:iter-create-failed"), "%s", why); return; }
	void *v; const char *k; int guard = 0;
	while ((k = qb_map_iter_next(it, &v)) != NULL && guard++ < 3 * MAXK) {
		int ki = key_index(k);
		if (ki < 0 || ki >= 1000) { vp_violation(mkey("map:iteration-unknown-key"), "%s: iterator returned key pointer %p not handed to the map", why, (void *)k); break; }
		if (model[ki] < 0) { vp_violation(mkey("map:iteration-yields-absent-key"), "%s: key#%d is not in the model", why, ki); continue; }
		if (prefix >= 0 && !is_prefix(prefix, ki)) vp_violation(mkey("map:prefix-iteration-yields-foreign-key"), "%s: key#%d lacks prefix key#%d", why, ki, prefix);
		if (seen[ki]++) vp_violation(mkey("map:iteration-duplicate"), "%s: key#%d returned twice", why, ki);
		if (val_index(v) != model[ki]) vp_violation(mkey("map:iteration-wrong-value"), "%s: key#%d value %d, model %d", why, ki, val_index(v), model[ki]);
		order[no++] = ki;
	}
	qb_map_iter_free(it);
	for (int i = 0; i < nkeys; i++)
		if (model[i] >= 0 && !seen[i] && (prefix < 0 || is_prefix(prefix, i))) { vp_violation(mkey("map:iteration-misses-key"), "%s: key#%d present but not returned", why, i); break; }
	if (impl != HASH && no > 1) {
		int su = 1, ss = 1;
		for (int i = 0; i + 1 < no; i++) { if (cmp_unsigned(order[i], order[i + 1]) >= 0) su = 0; if (cmp_signed(order[i], order[i + 1]) >= 0) ss = 0; }
		if (!su && !ss) vp_violation(mkey("map:iteration-not-sorted"), "%s: keys not in ascending order (neither unsigned nor signed byte order)", why);
		else if (!su) { n_signed_order++; vp_diag("map:order-is-signed-char", "iteration ascending only in signed-char byte order (keys with bytes >= 0x80 first)"); }
	}
	n_iters_full++;
}

static int foreach_left;
static int foreach_cb(const char *k, void *v, void *ud) { (void)k; (void)v; (void)ud; return --foreach_left <= 0; }

static void dictionary_check(const char *why)
{
	size_t c = qb_map_count_get(m);
	if (c != (size_t)model_count) vp_violation(mkey("map:count-mismatch"), "%s: count_get=%zu model=%d", why, c, model_count);
	for (int i = 0; i < nkeys; i++) {
		void *v = qb_map_get(m, K(i, vp.cur_case & 1));
		if (val_index(v) != model[i]) { vp_violation(mkey(model[i] < 0 ? "map:get-finds-absent-key" : "map:get-wrong-value"), "%s: get(key#%d)=%d model=%d", why, i, val_index(v), model[i]); break; }
	}
}

/* ---- open iterators (C18) ------------------------------------------ */
#define MAXIT 4
struct oit { qb_map_iter_t *it; int at_create[MAXK]; int ever[MAXK]; int returned[MAXK]; int inserts; int parked; int done; int prefix; };
static struct oit IT[MAXIT]; static int nopen;

static void it_note_insert(int k) { for (int i = 0; i < MAXIT; i++) if (IT[i].it) { IT[i].ever[k] = 1; IT[i].inserts++; } }
static void it_note_remove(int k) { for (int i = 0; i < MAXIT; i++) if (IT[i].it) IT[i].at_create[k] = 0; }

static void it_finish(int i, int exhausted)
{
	if (getenv("VP_TRACE")) fprintf(stderr, "   it%d finished exhausted=%d\n", i, exhausted);
	if (exhausted) {
		for (int k = 0; k < nkeys; k++)
			if (IT[i].at_create[k] && IT[i].returned[k] == 0 && (IT[i].prefix < 0 || is_prefix(IT[i].prefix, k))) {
				vp_violation(mkey("map:open-iteration-misses-stable-key"), "key#%d was present for the whole life of the iterator but never returned (inserts meanwhile: %d)", k, IT[i].inserts);
				break;
			}
	} else { n_iter_abandoned++; featA = 1; }
	qb_map_iter_free(IT[i].it);
	IT[i].it = NULL; nopen--;
}

static vprng_t *cur_rng;
static void nested_remove_from_notifier(void)
{
	int c[MAXK], n = 0; for (int i = 0; i < nkeys; i++) if (model[i] >= 0) c[n++] = i;
	if (!n) return;
	int k = c[vp_u(cur_rng, (uint32_t)n)]; int old = model[k];
	int rc = qb_map_rm(m, K(k, 0)); n_nested_rm++; n_rms++;
	if (!rc) vp_violation(mkey("map:rm-present-returns-false"), "rm(key#%d) from inside a notifier returned 0", k);
	kheld[k] = -2;
	model[k] = -1; model_count--; vals[old].in_map = 0; it_note_remove(k);
	if (impl != TRIE) for (int i = 0; i < nN; i++) if (N[i].active && N[i].key == k) N[i].active = 0;
}
static void run_case(long kase)
{
	vprng_t r; vp_seed(&r, vp.seed, (uint64_t)kase);
	make_pool(&r);
	nvals = 0; nN = 0; model_count = 0; nopen = 0; featP = featR = featD = featA = 0;
	static int removed_while_open[MAXK]; memset(removed_while_open, 0, sizeof removed_while_open);
	for (int i = 0; i < MAXK; i++) { model[i] = -1; ever_put[i] = 0; }
	cur_rng = &r; notifier_mutates = with_iters && impl == HASH && vp_chance(&r, 1, 3); in_open_iter_next = 0;
	memset(IT, 0, sizeof IT);
	m = impl == HASH ? qb_hashtable_create(vp_chance(&r, 1, 2) ? 4 : 64) : impl == SKIP ? qb_skiplist_create() : qb_trie_create();
	if (!m) { vp_violation(mkey("map:create-failed"), "create"); return; }
	int nops = 80 + (int)vp_u(&r, 220);
	int free_notifier = -1;
	int saw = 0; char tr[500]; size_t tn = 0; tr[0] = 0;
#define TR(...) do { if (tn < sizeof tr - 32) tn += (size_t)snprintf(tr + tn, 32, __VA_ARGS__); } while (0)
	/* a FREE notifier in most cases so that value release is accounted */
	if (vp_chance(&r, 4, 5)) {
		int ev = QB_MAP_NOTIFY_FREE;
		int rc = qb_map_notify_add(m, NULL, on_notify, ev, &ud_cookie[nN]);
		if (rc == 0) { N[nN] = (struct notif){ 1, -1, ev, nN }; free_notifier = nN; nN++; }
		else vp_violation(mkey("map:notify-add-failed"), "global FREE notifier: %d", rc);
	}
	for (int op = 0; op < nops; op++) {
		int k = (int)vp_u(&r, (uint32_t)nkeys);
		int kind = (int)vp_u(&r, 100);
		ngot = nwant = 0; n_ops++;
		int judge_now = nopen == 0;
		vp_desc("impl=%d pool=%d op=%d kind=%d key#%d open=%d hist=%s%s%s;", impl, pool_style, op, kind, k, nopen, featP ? "P" : "", featR ? "R" : "", featD ? "D" : "");
		if (getenv("VP_TRACE")) { fprintf(stderr, "op=%d kind=%d key#%d '%.20s' model=%d open=%d notifiers:", op, kind, k, kcopy[k][0], model[k], nopen); for (int i = 0; i < nN; i++) if (N[i].active) fprintf(stderr, " [u%d k%d e%d]", i, N[i].key, N[i].events); fprintf(stderr, "\n"); }
		if (kind < 34) { /* put */
			if ((hazard_mask & 1) && nopen) continue;
			int v = new_val(); if (v < 0) break;
			int copy = (int)vp_u(&r, 2);
			int old = model[k];
			if (old < 0) expect_event(QB_MAP_NOTIFY_INSERTED, k, -1, v); else expect_event(QB_MAP_NOTIFY_REPLACED, k, old, v);
			if (nopen) featP = 1;
			qb_map_put(m, K(k, copy), &vals[v]);
			n_puts++;
			kheld[k] = copy; if (nopen == 0) Kpoison(k, 1 - copy);   /* whatever it held before, the map now has the new key */
			vals[v].in_map = 1;
			if (old < 0) { model_count++; it_note_insert(k); } else vals[old].in_map = 0;
			model[k] = v; ever_put[k] = 1;
			if (judge_now) compare_notifs("put", k);
			TR("P%d ", k);
		} else if (kind < 58) { /* rm; in C18 mode biased to where iterators are parked */
			if (with_iters && nopen && vp_chance(&r, 1, 2)) {
				int c[MAXIT * 3], n = 0;
				for (int i = 0; i < MAXIT; i++) if (IT[i].it && IT[i].parked >= 0) { c[n++] = IT[i].parked; }
				if (n) { k = c[vp_u(&r, (uint32_t)n)]; n_rm_parked++; saw |= 4; }
			}
			if (nopen) {
				if (hazard_mask & 2) { int pk = 0; for (int i = 0; i < MAXIT; i++) if (IT[i].it && IT[i].parked == k) pk = 1; if (pk) continue; }
				if ((hazard_mask & 4) && model[k] < 0 && removed_while_open[k]) continue;
				for (int i = 0; i < MAXIT; i++) if (IT[i].it && IT[i].parked == k && model[k] >= 0) featR = 1;
				if (model[k] < 0 && removed_while_open[k]) featD = 1;
				if (model[k] >= 0) removed_while_open[k] = 1;
			}
			int old = model[k];
			if (old >= 0) expect_event(QB_MAP_NOTIFY_DELETED, k, old, -1); else { n_absent_rm++; saw |= 1; }
			int rc = qb_map_rm(m, K(k, (int)vp_u(&r, 2)));
			if (rc && nopen == 0) { kheld[k] = -1; Kpoison(k, 0); Kpoison(k, 1); } else if (rc) kheld[k] = -2;   /* -2: a parked iterator may still show the removed entry */
			if (getenv("VP_TRACE")) fprintf(stderr, "   rm key#%d -> %d (model had %d)\n", k, rc, old);
			n_rms++;
			if (judge_now) {
				if (old >= 0 && !rc) vp_violation(mkey("map:rm-present-returns-false"), "rm(key#%d) returned %d", k, rc);
				if (old < 0 && rc) vp_violation(mkey("map:rm-absent-returns-true"), "rm(key#%d) returned %d although the key is absent (pool style %d)", k, rc, pool_style);
			}
			if (old >= 0) {
				model[k] = -1; model_count--; vals[old].in_map = 0; it_note_remove(k);
				/* per-key notifiers die with the entry on hashtable / skiplist */
				if (impl != TRIE) for (int i = 0; i < nN; i++) if (N[i].active && N[i].key == k) N[i].active = 0;
			}
			if (judge_now) compare_notifs("rm", k);
			TR("R%d:%d ", k, rc);
		} else if (kind < 68) { /* get / count */
			if (judge_now) {
				void *v = qb_map_get(m, K(k, (int)vp_u(&r, 2)));
				n_gets++;
				if (val_index(v) != model[k]) vp_violation(mkey(model[k] < 0 ? "map:get-finds-absent-key" : "map:get-wrong-value"), "get(key#%d)=%d model=%d", k, val_index(v), model[k]);
				size_t c = qb_map_count_get(m);
				if (c != (size_t)model_count) vp_violation(mkey("map:count-mismatch"), "count_get=%zu model=%d", c, model_count);
			} else { (void)qb_map_get(m, K(k, 0)); (void)qb_map_count_get(m); }
		} else if (kind < 76 && !with_iters) { /* complete iteration / prefix iteration / foreach */
			int w = (int)vp_u(&r, 4);
			if (w == 0 && impl == TRIE) { full_iteration(k, "prefix iteration"); n_pref++; saw |= 2; }
			else if (w == 1) {
				foreach_left = 1 + (int)vp_u(&r, (uint32_t)(model_count + 2));
				if (foreach_left <= model_count) { n_foreach_abandon++; saw |= 8; }
				qb_map_foreach(m, foreach_cb, NULL);
				TR("F ");
			} else full_iteration(-1, "iteration");
			if (ngot) vp_violation(mkey("map:notification-during-iteration"), "iteration delivered %d notifications", ngot);
		} else if (kind < 86 && !with_iters) { /* notifier add / delete */
			if (vp_chance(&r, 2, 3) && nN < MAXN) {
				static const int EV[] = { QB_MAP_NOTIFY_DELETED, QB_MAP_NOTIFY_REPLACED, QB_MAP_NOTIFY_DELETED | QB_MAP_NOTIFY_REPLACED,
					QB_MAP_NOTIFY_INSERTED | QB_MAP_NOTIFY_DELETED | QB_MAP_NOTIFY_REPLACED, QB_MAP_NOTIFY_INSERTED };
				int ev = EV[vp_u(&r, 5)];
				int nk = vp_chance(&r, 1, 2) ? -1 : k;
				if (nk >= 0 && impl == TRIE && vp_chance(&r, 1, 2)) ev |= QB_MAP_NOTIFY_RECURSIVE;
				if (nk < 0) ev |= QB_MAP_NOTIFY_RECURSIVE;  /* documented form of a map-wide notifier (a trie treats it as the "" prefix) */
				if (nk >= 0 && impl != TRIE && model[nk] < 0) {
					int rc = qb_map_notify_add(m, K(nk, 0), on_notify, ev, &ud_cookie[nN]);
					if (rc == 0) vp_diag("map:per-key-notifier-on-absent-key-accepted", "notify_add on absent key returned 0");
				} else {
					int rc = qb_map_notify_add(m, nk < 0 ? NULL : K(nk, 0), on_notify, ev, &ud_cookie[nN]);
					if (rc == 0) { N[nN] = (struct notif){ 1, nk, ev, nN }; nN++; saw |= 16; }
					else vp_violation(mkey("map:notify-add-failed"), "notify_add(key#%d, events=%d) returned %d", nk, ev, rc);
				}
				if (ngot) vp_violation(mkey("map:notification-during-notify-add"), "%d notifications", ngot);
			} else if (nN > 0) {
				int i = (int)vp_u(&r, (uint32_t)nN);
				if (N[i].active && i != free_notifier) {
					int rc = qb_map_notify_del_2(m, N[i].key < 0 ? NULL : K(N[i].key, 0), on_notify, N[i].events, &ud_cookie[i]);
					if (rc != 0) vp_violation(mkey("map:notify-del-failed"), "notify_del_2(key#%d, events=%d) returned %d", N[i].key, N[i].events, rc);
					N[i].active = 0;
				}
			}
		} else if (with_iters) { /* iterator operations */
			int w = (int)vp_u(&r, 10);
			if ((w < 3 || nopen == 0) && nopen < MAXIT) {
				int i; for (i = 0; i < MAXIT; i++) if (!IT[i].it) break;
				memset(&IT[i], 0, sizeof IT[i]);
				IT[i].prefix = -1;
				if (impl == TRIE && vp_chance(&r, 1, 4)) { IT[i].prefix = k; IT[i].it = qb_map_pref_iter_create(m, K(k, 0)); }
				else IT[i].it = qb_map_iter_create(m);
				if (!IT[i].it) { vp_violation(mkey("map:iter-create-failed"), "open iterator"); continue; }
				for (int q = 0; q < nkeys; q++) IT[i].at_create[q] = IT[i].ever[q] = model[q] >= 0;
				IT[i].parked = -1; nopen++; n_iter_open++;
				if (getenv("VP_TRACE")) fprintf(stderr, "   it%d created prefix=%d\n", i, IT[i].prefix);
				TR("I+ ");
			} else if (w < 9) {
				int c[MAXIT], n = 0; for (int i = 0; i < MAXIT; i++) if (IT[i].it) c[n++] = i;
				int i = c[vp_u(&r, (uint32_t)n)];
				int steps = 1 + (int)vp_u(&r, 3);
				while (steps-- > 0 && IT[i].it) {
					in_open_iter_next = 1; void *v = NULL; const char *key = qb_map_iter_next(IT[i].it, &v); in_open_iter_next = 0;
					if (!key) { IT[i].parked = -1; it_finish(i, 1); break; }
					int ki = key_index(key);
					if (ki < 0 || ki >= 1000) { vp_violation(mkey("map:iteration-unknown-key"), "open iterator returned foreign key pointer %p", (void *)key); break; }
					if (!ever_put[ki]) vp_violation(mkey("map:open-iteration-yields-never-present-key"), "key#%d was never put into this map", ki);
					if (IT[i].returned[ki]++ && IT[i].inserts == 0) vp_violation(mkey("map:open-iteration-duplicate"), "key#%d returned twice although only removals happened", ki);
					if (IT[i].prefix >= 0 && !is_prefix(IT[i].prefix, ki)) vp_violation(mkey("map:prefix-iteration-yields-foreign-key"), "open: key#%d lacks prefix key#%d", ki, IT[i].prefix);
					IT[i].parked = ki;
					if (getenv("VP_TRACE")) fprintf(stderr, "   it%d -> key#%d\n", i, ki);
				}
				TR("I> ");
			} else {
				int c[MAXIT], n = 0; for (int i = 0; i < MAXIT; i++) if (IT[i].it) c[n++] = i;
				it_finish(c[vp_u(&r, (uint32_t)n)], 0); saw |= 32;
				TR("I- ");
			}
			if (nopen == 0) { dictionary_check("after the last iterator was freed"); memset(removed_while_open, 0, sizeof removed_while_open); }
		}
		if (op % 41 == 40 && nopen == 0) dictionary_check("periodic");
	}
	/* close iterators (abandon), then the map must be a plain dictionary again */
	for (int i = 0; i < MAXIT; i++) if (IT[i].it) it_finish(i, 0);
	ngot = nwant = 0;
	dictionary_check("end of history");
	full_iteration(-1, "final iteration");
	/* destroy: every value still in the map leaves it -> DELETED + FREE */
	ngot = nwant = 0;
	for (int i = 0; i < nkeys; i++) if (model[i] >= 0) expect_event(QB_MAP_NOTIFY_DELETED, i, model[i], -1);
	vp_desc("impl=%d pool=%d destroy held=%d", impl, pool_style, model_count);
	qb_map_destroy(m);
	if (ngot < MAXREC && nwant < MAXREC) compare_notifs("destroy", -1);
	if (free_notifier >= 0)
		for (int v = 0; v < nvals; v++) {
			if (vals[v].freed != 1) {
				vp_violation(mkey(vals[v].freed ? "map:value-freed-twice" : "map:value-never-released"),
					     "value id=%d was put but FREE notifier ran %d times by the end (iterators used: %d)", v, vals[v].freed, with_iters);
				break;
			}
		}
	if (saw) vp_distinct(vp_hash_u64(vp_hash_bytes((uint64_t)impl * 7 + (uint64_t)pool_style, tr, tn > 160 ? 160 : tn), (uint64_t)saw));
	if (kase % 211 == 0) vp_sample("impl=%s pool=%d keys=%d ops=%d notifiers=%d: %s", impl == HASH ? "hash" : impl == SKIP ? "skip" : "trie", pool_style, nkeys, nops, nN, tr);
	free_pool();
}

int main(int argc, char **argv)
{
	vp_init(argc, argv);
	const char *s = vp_arg("--impl", "hash");
	impl = !strcmp(s, "hash") ? HASH : !strcmp(s, "skip") ? SKIP : TRIE;
	with_iters = (int)vp_argl("--iters", 0);
	hazard_mask = (int)vp_argl("--forbid", 0);
	for (long k = vp.case_from; k < vp.case_to; k++) { vp_begin_case(k); run_case(k); }
	vp_count("ops", n_ops); vp_count("puts", n_puts); vp_count("rms", n_rms); vp_count("rm_of_absent_key", n_absent_rm);
	vp_count("key_storage_scribbled_over", n_poisoned); vp_count("removes_from_inside_a_notifier_during_iter_next", n_nested_rm);
	vp_count("gets_judged", n_gets); vp_count("full_iterations", n_iters_full); vp_count("prefix_iterations", n_pref);
	vp_count("foreach_abandoned", n_foreach_abandon); vp_count("notifications_seen", n_notifs); vp_count("free_notifications", n_frees);
	vp_count("iterators_opened", n_iter_open); vp_count("rm_of_parked_entry", n_rm_parked); vp_count("iterators_abandoned", n_iter_abandoned);
	vp_count("iterations_in_signed_char_order", n_signed_order);
	vp_finish();
	return 0;
}
