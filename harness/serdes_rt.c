/* C14 runtime for generated case files: decode(encode(fmt,args)) vs vsnprintf,
 * exact-size heap buffers under ASan.  The generated file defines
 * `vp_cases[]`/`vp_ncases` and calls serdes_case() with literal arguments. */
#include "vp.h"
#include <qb/qbdefs.h>
#include <qb/qblog.h>

/* internal API of libqb (lib/log_int.h) */
size_t qb_vsnprintf_serialize(char *serialize, size_t max_len, const char *fmt, va_list ap);
size_t qb_vsnprintf_deserialize(char *string, size_t str_len, const char *buf);

typedef void (*casefn)(void);
extern casefn vp_cases[];
extern const long vp_ncases;

static long n_judged, n_equal, n_not_fitting, n_enc_full, n_directives;

void serdes_case(long id, size_t max_len, size_t str_len, const char *cls, int ndir, const char *fmt, ...)
{
	static char ref[20000];
	va_list ap;
	vp_desc("id=%ld max_len=%zu str_len=%zu cls=%s fmt=%.120s", id, max_len, str_len, cls, fmt);
	va_start(ap, fmt);
	int n = vsnprintf(ref, sizeof ref, fmt, ap);
	va_end(ap);
	n_directives += ndir;

	char *ser = malloc(max_len);           /* exactly the space reserved for the record */
	memset(ser, 0x5a, max_len);
	va_start(ap, fmt);
	size_t sz = qb_vsnprintf_serialize(ser, max_len, fmt, ap);
	va_end(ap);
	if (sz > max_len) {
		char k[128]; snprintf(k, sizeof k, "serdes:serialize-returns-more-than-max_len:%s", cls);
		vp_violation(k, "returned %zu for max_len %zu", sz, max_len);
	}
	if (sz >= max_len) {
		/* encoder says: does not fit (the blackbox then stores its fixed notice instead) */
		n_enc_full++;
		free(ser);
		return;
	}
	char *out = malloc(str_len);           /* exactly the caller's buffer */
	memset(out, 0x5a, str_len);
	size_t dl = qb_vsnprintf_deserialize(out, str_len, ser);
	(void)dl;
	int fits = n >= 0 && (size_t)n < str_len && (size_t)n < sizeof ref;
	if (!fits) n_not_fitting++;
	else {
		n_judged++;
		if (memchr(out, 0, str_len) == NULL) {
			char k[128]; snprintf(k, sizeof k, "serdes:decoded-text-not-terminated:%s", cls);
			vp_violation(k, "no NUL within str_len=%zu", str_len);
		} else if (strcmp(out, ref) != 0) {
			char k[128]; snprintf(k, sizeof k, "serdes:decode-differs-from-printf:%s", cls);
			vp_violation(k, "fmt=[%.200s] printf=[%.200s] decoded=[%.200s]", fmt, ref, out);
		} else n_equal++;
	}
	vp_distinct(vp_hash_bytes(vp_hash_bytes(1469598103934665603ULL, cls, strlen(cls)), fmt, strlen(fmt) > 48 ? 48 : strlen(fmt)));
	if (id % 401 == 0) vp_sample("id=%ld cls=%s max_len=%zu str_len=%zu fmt=[%.150s] printf=[%.100s]", id, cls, max_len, str_len, fmt, ref);
	free(out);
	free(ser);
}

int main(int argc, char **argv)
{
	vp_init(argc, argv);
	long to = vp.case_to < vp_ncases ? vp.case_to : vp_ncases;
	for (long k = vp.case_from; k < to; k++) { vp_begin_case(k); vp_cases[k](); }
	vp_count("judged_text_fits", n_judged); vp_count("decoded_equal_to_printf", n_equal);
	vp_count("text_does_not_fit_memory_safety_only", n_not_fitting); vp_count("encoder_reported_full", n_enc_full);
	vp_count("directives", n_directives);
	vp_finish();
	return 0;
}
