/* C12: log routing follows the filters, independent of call-site age.
 *
 * Oracle 1 (model): delivered <=> target enabled && some stored filter selects the site; tags likewise.
 *                   Judged only while no REMOVE/CLEAR has overlapped another stored filter (there the
 *                   documented "bitmap" reading and the declarative reading agree).
 * Oracle 2 (metamorphic): the same history with all call sites created up front vs. created at their first
 *                   log call must produce identical deliveries and tags.
 * A failing history is shrunk (one-op-at-a-time deletion) and the violation key carries the features of the
 * shrunk history.
 */
#include "vp.h"
#include <regex.h>
#include <qb/qbdefs.h>
#include <qb/qblog.h>

#define MAXSITES 200
#define MAXOPS 120
#define NT 4            /* logical targets */
#define MAXTEXT 64
#define MAXF 64

struct site { char file[40], func[40], fmt[48]; int prio, line; };
static struct site S[MAXSITES]; static int nsites;
static char TEXT[MAXTEXT][96]; static int text_type[MAXTEXT]; static int ntext;

enum { OP_FADD, OP_FREMOVE, OP_FCLEAR, OP_TSET, OP_TCLEAR, OP_TCLEARALL, OP_ENABLE, OP_DISABLE, OP_OPEN, OP_CLOSE, OP_LOG };
struct op { int kind, target, ftype, text, hi, lo, tagval, site, skip; };
static struct op OPS[MAXOPS]; static int nops;
static int overlapping[MAXOPS];   /* set by run_history: this removal/clear overlapped another stored filter */

/* ---- reference matching (from the property statement) ----------------- */
static int ref_match(const struct site *s, int ftype, const char *text, int hi, int lo)
{
	if (s->prio > lo || s->prio < hi) return 0;
	if (strcmp(text, "*") == 0) return 1;
	const char *subj = NULL;
	switch (ftype) {
	case QB_LOG_FILTER_FILE: case QB_LOG_FILTER_FUNCTION: {
		const char *want = ftype == QB_LOG_FILTER_FILE ? s->file : s->func;
		const char *p = text;
		while (*p) {
			const char *e = strchr(p, ','); size_t n = e ? (size_t)(e - p) : strlen(p);
			if (strlen(want) == n && memcmp(want, p, n) == 0) return 1;
			if (!e) break;
			p = e + 1;
		}
		return 0;
	}
	case QB_LOG_FILTER_FORMAT: return strstr(s->fmt, text) != NULL;
	case QB_LOG_FILTER_FILE_REGEX: subj = s->file; break;
	case QB_LOG_FILTER_FUNCTION_REGEX: subj = s->func; break;
	default: subj = s->fmt; break;
	}
	regex_t re; if (regcomp(&re, text, 0)) return 0;
	int m = regexec(&re, subj, 0, NULL, 0) == 0;
	regfree(&re);
	return m;
}

/* ---- model -------------------------------------------------------------- */
struct mfilter { int ftype, text, hi, lo, val; };
struct mtarget { int open, enabled, slot; struct mfilter f[MAXF]; int nf; };
static struct mtarget MT[NT];
static struct mfilter TAGF[MAXF]; static int ntagf;
static int model_valid, tag_model_valid;   /* cleared by an overlapping removal */
static int feat_remove_overlap, feat_added_while_disabled, feat_site_born_while_disabled, feat_slot_reuse, feat_tag_overlap, feat_regex, feat_tag_clear;

static int mf_match_site(const struct mfilter *f, int si) { return ref_match(&S[si], f->ftype, TEXT[f->text], f->hi, f->lo); }

static int model_selected(int t, int si)
{
	for (int i = 0; i < MT[t].nf; i++) if (mf_match_site(&MT[t].f[i], si)) return 1;
	return 0;
}
static int model_tag(int si)
{
	int v = 0;
	for (int i = 0; i < ntagf; i++) if (mf_match_site(&TAGF[i], si)) v = TAGF[i].val;
	return v;
}

/* ---- deliveries ----------------------------------------------------------- */
struct deliv { int call, target, tags; };
#define MAXD 4096
static struct deliv D[2][MAXD]; static int nD[2]; static int cur_run, cur_call;
static int slot2logical[64];

static void logger(int32_t t, struct qb_log_callsite *cs, struct timespec *ts, const char *msg)
{
	(void)ts; (void)msg;
	int lt = (t >= 0 && t < 64) ? slot2logical[t] : -1;
	if (nD[cur_run] < MAXD) D[cur_run][nD[cur_run]++] = (struct deliv){ cur_call, lt, (int)cs->tags };
}

static long n_sanitised;
static long n_log_calls, n_deliveries, n_model_judged, n_meta_compared, n_filter_ops, n_shrinks;

/* execute OPS (skipping .skip); pretouch: create every call site before the first op.
 * returns index of the first op at which the model oracle failed, or -1 */
static int model_fail_kind;   /* 1 unexpected delivery, 2 missing delivery, 3 duplicate, 4 wrong tags */
static int ballast, max_slot_seen; static long n_ballast_cases;
static void ballast_logger(int32_t t, struct qb_log_callsite *cs, struct timespec *ts, const char *msg) { (void)t; (void)cs; (void)ts; (void)msg; vp_violation("route:delivered-to-a-target-that-was-never-enabled", "slot %d", t); }
static int run_history(int run, int pretouch, int judge_model)
{
	int fail_at = -1;
	cur_run = run; nD[run] = 0; memset(overlapping, 0, sizeof overlapping);
	memset(MT, 0, sizeof MT); ntagf = 0; model_valid = tag_model_valid = 1;
	feat_remove_overlap = feat_added_while_disabled = feat_site_born_while_disabled = feat_slot_reuse = feat_tag_overlap = feat_regex = feat_tag_clear = 0;
	static int slot_used_before[64]; memset(slot_used_before, 0, sizeof slot_used_before);
	static int born[MAXSITES]; memset(born, 0, sizeof born);
	for (int i = 0; i < 64; i++) slot2logical[i] = -1;
	qb_log_init("vp-route", LOG_USER, LOG_EMERG);
	qb_log_ctl(QB_LOG_SYSLOG, QB_LOG_CONF_ENABLED, QB_FALSE);
	qb_log_filter_ctl(QB_LOG_SYSLOG, QB_LOG_FILTER_CLEAR_ALL, QB_LOG_FILTER_FILE, "*", LOG_TRACE);
	/* in some cases the lower slots are taken by targets that stay closed off (never enabled, no filter), so that the
	 * targets of the history live in the highest slots there are */
	for (int bsl = 0; bsl < ballast; bsl++) { int bs = qb_log_custom_open(ballast_logger, NULL, NULL, NULL); if (bs > max_slot_seen) max_slot_seen = bs; }
	if (pretouch)
		for (int i = 0; i < nsites; i++) { (void)qb_log_callsite_get(S[i].func, S[i].file, S[i].fmt, (uint8_t)S[i].prio, (uint32_t)S[i].line, 0); born[i] = 1; }
	for (int oi = 0; oi < nops; oi++) {
		struct op *o = &OPS[oi];
		if (o->skip) continue;
		struct mtarget *mt = &MT[o->target];
		vp_desc("run=%d pretouch=%d op#%d kind=%d target=%d", run, pretouch, oi, o->kind, o->target);
		switch (o->kind) {
		case OP_OPEN:
			if (mt->open) break;
			mt->slot = qb_log_custom_open(logger, NULL, NULL, NULL);
			if (mt->slot < 0) break;
			if (mt->slot > max_slot_seen) max_slot_seen = mt->slot;
			if (slot_used_before[mt->slot]) feat_slot_reuse = 1;
			slot_used_before[mt->slot] = 1;
			mt->open = 1; mt->enabled = 0; mt->nf = 0; slot2logical[mt->slot] = o->target;
			break;
		case OP_CLOSE:
			if (!mt->open) break;
			qb_log_custom_close(mt->slot);
			slot2logical[mt->slot] = -1; mt->open = 0; mt->enabled = 0; mt->nf = 0;
			break;
		case OP_ENABLE: case OP_DISABLE:
			if (!mt->open) break;
			qb_log_ctl(mt->slot, QB_LOG_CONF_ENABLED, o->kind == OP_ENABLE);
			mt->enabled = o->kind == OP_ENABLE;
			break;
		case OP_FADD: {
			if (!mt->open) break;
			n_filter_ops++;
			int rc = qb_log_filter_ctl2(mt->slot, QB_LOG_FILTER_ADD, (enum qb_log_filter_type)o->ftype, TEXT[o->text], (uint8_t)o->hi, (uint8_t)o->lo);
			int dup = 0;
			for (int i = 0; i < mt->nf; i++) if (mt->f[i].ftype == o->ftype && mt->f[i].text == o->text && mt->f[i].hi == o->hi && mt->f[i].lo == o->lo) dup = 1;
			if (rc == 0 && !dup && mt->nf < MAXF) mt->f[mt->nf++] = (struct mfilter){ o->ftype, o->text, o->hi, o->lo, 0 };
			if (!mt->enabled) feat_added_while_disabled = 1;
			if (o->ftype == QB_LOG_FILTER_FILE_REGEX || o->ftype == QB_LOG_FILTER_FUNCTION_REGEX || o->ftype == QB_LOG_FILTER_FORMAT_REGEX) feat_regex = 1;
			break;
		}
		case OP_FREMOVE: {
			if (!mt->open) break;
			n_filter_ops++;
			qb_log_filter_ctl2(mt->slot, QB_LOG_FILTER_REMOVE, (enum qb_log_filter_type)o->ftype, TEXT[o->text], (uint8_t)o->hi, (uint8_t)o->lo);
			/* model: remove the stored filter it names */
			int ambiguous = 0;
			for (int i = 0; i < mt->nf; i++)
				if (mt->f[i].ftype == o->ftype && (mt->f[i].text == o->text || strcmp(TEXT[o->text], "*") == 0) &&
				    mt->f[i].lo <= o->lo && mt->f[i].hi >= o->hi &&
				    !(mt->f[i].text == o->text && mt->f[i].hi == o->hi && mt->f[i].lo == o->lo)) ambiguous = 1; /* a narrower stored filter is "contained" in what was named */
			int rm = -1;
			for (int i = 0; i < mt->nf; i++) if (mt->f[i].ftype == o->ftype && mt->f[i].text == o->text && mt->f[i].hi == o->hi && mt->f[i].lo == o->lo) { rm = i; break; }
			if (rm >= 0) { memmove(&mt->f[rm], &mt->f[rm + 1], sizeof(struct mfilter) * (size_t)(mt->nf - rm - 1)); mt->nf--; }
			/* does what was named overlap a filter that stays (or name nothing stored)?  then the two readings differ */
			struct mfilter named = { o->ftype, o->text, o->hi, o->lo, 0 };
			int overlap = (rm < 0 && mt->nf > 0) || ambiguous;
			for (int si = 0; si < nsites && !overlap; si++)
				if (mf_match_site(&named, si) && model_selected(o->target, si)) overlap = 1;
			/* a removal naming a wider window / "*" also takes a narrower stored filter with it in the library */
			if (overlap) { feat_remove_overlap = 1; model_valid = 0; overlapping[oi] = 1; }
			break;
		}
		case OP_FCLEAR:
			if (!mt->open) break;
			n_filter_ops++;
			qb_log_filter_ctl(mt->slot, QB_LOG_FILTER_CLEAR_ALL, QB_LOG_FILTER_FILE, "*", LOG_TRACE);
			mt->nf = 0;
			break;
		case OP_TSET: {
			n_filter_ops++;
			int rc = qb_log_filter_ctl2(o->tagval, QB_LOG_TAG_SET, (enum qb_log_filter_type)o->ftype, TEXT[o->text], (uint8_t)o->hi, (uint8_t)o->lo);
			struct mfilter nf = { o->ftype, o->text, o->hi, o->lo, o->tagval };
			for (int si = 0; si < nsites; si++) if (mf_match_site(&nf, si) && model_tag(si) != 0) { feat_tag_overlap = 1; tag_model_valid = 0; overlapping[oi] = 1; }
			if (rc == 0 && ntagf < MAXF) TAGF[ntagf++] = nf;
			break;
		}
		case OP_TCLEAR: {
			n_filter_ops++;
			qb_log_filter_ctl2(0, QB_LOG_TAG_CLEAR, (enum qb_log_filter_type)o->ftype, TEXT[o->text], (uint8_t)o->hi, (uint8_t)o->lo);
			feat_tag_clear = 1;
			/* as for REMOVE: the library drops the first stored filter whose window lies inside the named one (or any text
			 * for "*"), not the identical one: a narrower / other stored filter in reach makes the clear ambiguous */
			int ambiguous = 0;
			for (int i = 0; i < ntagf; i++)
				if (TAGF[i].ftype == o->ftype && (TAGF[i].text == o->text || strcmp(TEXT[o->text], "*") == 0) &&
				    TAGF[i].lo <= o->lo && TAGF[i].hi >= o->hi &&
				    !(TAGF[i].text == o->text && TAGF[i].hi == o->hi && TAGF[i].lo == o->lo)) ambiguous = 1;
			int rm = -1;
			for (int i = 0; i < ntagf; i++) if (TAGF[i].ftype == o->ftype && TAGF[i].text == o->text && TAGF[i].hi == o->hi && TAGF[i].lo == o->lo) { rm = i; break; }
			if (rm >= 0) { memmove(&TAGF[rm], &TAGF[rm + 1], sizeof(struct mfilter) * (size_t)(ntagf - rm - 1)); ntagf--; }
			struct mfilter named = { o->ftype, o->text, o->hi, o->lo, 0 };
			int overlap = (rm < 0 && ntagf > 0) || ambiguous;
			for (int si = 0; si < nsites && !overlap; si++) if (mf_match_site(&named, si) && model_tag(si) != 0) overlap = 1;
			if (overlap) { feat_tag_overlap = 1; tag_model_valid = 0; overlapping[oi] = 1; }
			break;
		}
		case OP_TCLEARALL:
			n_filter_ops++;
			qb_log_filter_ctl(0, QB_LOG_TAG_CLEAR_ALL, QB_LOG_FILTER_FILE, "*", LOG_TRACE);
			ntagf = 0;
			break;
		case OP_LOG: {
			int si = o->site; int before = nD[run];
			cur_call = oi; n_log_calls++;
			if (!born[si]) { born[si] = 1; for (int t = 0; t < NT; t++) if (MT[t].open && !MT[t].enabled && MT[t].nf) feat_site_born_while_disabled = 1; }
			qb_log_from_external_source(S[si].func, S[si].file, S[si].fmt, (uint8_t)S[si].prio, (uint32_t)S[si].line, 0, oi);
			n_deliveries += nD[run] - before;
			if (judge_model && fail_at < 0) {
				int cnt[NT]; memset(cnt, 0, sizeof cnt); int tagseen = -1, foreign = 0;
				for (int k = before; k < nD[run]; k++) { if (D[run][k].target >= 0) cnt[D[run][k].target]++; else foreign++; tagseen = D[run][k].tags; }
				n_model_judged++;
				for (int t = 0; t < NT && fail_at < 0; t++) {
					int want = MT[t].open && MT[t].enabled && model_selected(t, si);
					if (cnt[t] > 1) { fail_at = oi; model_fail_kind = 3; }
					else if (model_valid && want && !cnt[t]) { fail_at = oi; model_fail_kind = 2; }
					else if (model_valid && !want && cnt[t]) { fail_at = oi; model_fail_kind = 1; }
				}
				if (foreign && fail_at < 0) { fail_at = oi; model_fail_kind = 1; }
				if (fail_at < 0 && tag_model_valid && tagseen >= 0 && tagseen != model_tag(si)) { fail_at = oi; model_fail_kind = 4; }
			}
			break;
		}
		}
	}
	qb_log_fini();
	return fail_at;
}

static int meta_differs(void)
{
	if (nD[0] != nD[1]) return 1;
	for (int i = 0; i < nD[0]; i++) if (D[0][i].call != D[1][i].call || D[0][i].target != D[1][i].target || D[0][i].tags != D[1][i].tags) return 1;
	return 0;
}

/* ---- generation ----------------------------------------------------------- */
static int add_text(const char *s, int type) { for (int i = 0; i < ntext; i++) if (strcmp(TEXT[i], s) == 0) return i; if (ntext >= MAXTEXT) return 0; snprintf(TEXT[ntext], sizeof TEXT[0], "%s", s); text_type[ntext] = type; return ntext++; }

static void gen_case(vprng_t *r)
{
	static const char *FMTS[] = { "alpha %d", "beta one %d", "gamma two one %d", "delta %d done", "one %d", "zeta=%d" };
	int nfiles = 3 + (int)vp_u(r, 4);
	nsites = 30 + (int)vp_u(r, 170); if (nsites > MAXSITES) nsites = MAXSITES;
	int lines_per_file = 1 + nsites / nfiles;
	for (int i = 0; i < nsites; i++) {
		int f = i % nfiles, ln = 10 + (i / nfiles) * (vp_chance(r, 1, 2) ? 1 : 7);
		snprintf(S[i].file, sizeof S[i].file, "file%d.c", f);
		snprintf(S[i].func, sizeof S[i].func, "fn_%d_%d", f, (i / nfiles) % 5);     /* several sites per function */
		snprintf(S[i].fmt, sizeof S[i].fmt, "%s", FMTS[vp_u(r, 6)]);
		S[i].prio = (int)vp_u(r, 8);
		S[i].line = ln + (vp_chance(r, 1, 6) ? 0 : f * 1000);                    /* some line numbers shared between files */
		(void)lines_per_file;
	}
	/* identical (file,line,prio,fmt) would be one call site: make them unique */
	for (int i = 0; i < nsites; i++) for (int j = 0; j < i; j++)
		if (S[i].line == S[j].line && strcmp(S[i].file, S[j].file) == 0) { S[i].line += 5000 + i; j = -1; }
	ntext = 0;
	add_text("*", -1);
	char b[96];
	for (int f = 0; f < nfiles; f++) { snprintf(b, sizeof b, "file%d.c", f); add_text(b, QB_LOG_FILTER_FILE); }
	add_text("file0.c,file2.c", QB_LOG_FILTER_FILE); add_text("nofile.c,file1.c", QB_LOG_FILTER_FILE); add_text("file", QB_LOG_FILTER_FILE);
	for (int k = 0; k < 6; k++) { snprintf(b, sizeof b, "fn_%u_%u", vp_u(r, (uint32_t)nfiles), vp_u(r, 5)); add_text(b, QB_LOG_FILTER_FUNCTION); }
	add_text("fn_0_0,fn_1_1,fn_2_2", QB_LOG_FILTER_FUNCTION); add_text("fn_0", QB_LOG_FILTER_FUNCTION);
	add_text("one", QB_LOG_FILTER_FORMAT); add_text("two one", QB_LOG_FILTER_FORMAT); add_text("%d done", QB_LOG_FILTER_FORMAT); add_text("nomatch", QB_LOG_FILTER_FORMAT); add_text("a", QB_LOG_FILTER_FORMAT);
	add_text("^file[12]", QB_LOG_FILTER_FILE_REGEX); add_text("\\.c$", QB_LOG_FILTER_FILE_REGEX); add_text("file[0-9]*\\.c", QB_LOG_FILTER_FILE_REGEX);
	add_text("_3$", QB_LOG_FILTER_FUNCTION_REGEX); add_text("^fn_[01]_", QB_LOG_FILTER_FUNCTION_REGEX);
	add_text("^one", QB_LOG_FILTER_FORMAT_REGEX); add_text("one.*%d", QB_LOG_FILTER_FORMAT_REGEX); add_text("^[a-d]", QB_LOG_FILTER_FORMAT_REGEX);
	/* patterns that mean one thing as a basic and another as an extended regular expression (the library compiles them
	 * as basic ones: grouping and alternation are backslashed, a bare + ? | ( ) { is a literal) */
	add_text("^file\\(0\\|2\\)\\.c$", QB_LOG_FILTER_FILE_REGEX); add_text("file[0-9]\\{1\\}\\.c", QB_LOG_FILTER_FILE_REGEX);
	add_text("^fn_\\(0\\|1\\)_[0-2]$", QB_LOG_FILTER_FUNCTION_REGEX); add_text("fn_1_1\\|fn_2_2", QB_LOG_FILTER_FUNCTION_REGEX); add_text("fn_(0|1)", QB_LOG_FILTER_FUNCTION_REGEX);
	add_text("two\\? one", QB_LOG_FILTER_FORMAT_REGEX); add_text("a+", QB_LOG_FILTER_FORMAT_REGEX); add_text("\\(one\\|done\\)$", QB_LOG_FILTER_FORMAT_REGEX);

	nops = 0;
	int want = 30 + (int)vp_u(r, MAXOPS - 31);
	int profile = (int)vp_u(r, 4);     /* 0: add-only routing, 1: + removes, 2: + tags, 3: everything incl. open/close */
	OPS[nops++] = (struct op){ OP_OPEN, 0 }; OPS[nops++] = (struct op){ OP_OPEN, 1 };
	if (vp_chance(r, 3, 4)) OPS[nops++] = (struct op){ OP_ENABLE, 0 };
	while (nops < want) {
		struct op o; memset(&o, 0, sizeof o);
		o.target = (int)vp_u(r, profile == 3 ? NT : 2);
		int k = (int)vp_u(r, 100);
		int ti = (int)vp_u(r, (uint32_t)ntext);
		o.text = ti;
		o.ftype = text_type[ti] >= 0 ? text_type[ti] : (int)vp_u(r, 6);
		o.lo = vp_chance(r, 1, 2) ? 8 : (int)vp_u(r, 9); o.hi = vp_chance(r, 2, 3) ? 0 : (int)vp_u(r, (uint32_t)o.lo + 1);
		if (k < 45) { o.kind = OP_LOG; o.site = (int)vp_u(r, (uint32_t)nsites); }
		else if (k < 63) o.kind = OP_FADD;
		else if (k < 70) o.kind = profile >= 1 ? OP_FREMOVE : OP_FADD;
		else if (k < 73) o.kind = profile >= 1 ? OP_FCLEAR : OP_LOG, o.site = (int)vp_u(r, (uint32_t)nsites);
		else if (k < 83) o.kind = vp_chance(r, 3, 5) ? OP_ENABLE : OP_DISABLE;
		else if (k < 91) { o.kind = profile >= 2 ? OP_TSET : OP_FADD; o.tagval = 1 + (int)vp_u(r, 30); }
		else if (k < 94) o.kind = profile >= 2 ? OP_TCLEAR : OP_LOG, o.site = (int)vp_u(r, (uint32_t)nsites);
		else if (k < 95) o.kind = profile >= 2 ? OP_TCLEARALL : OP_LOG, o.site = (int)vp_u(r, (uint32_t)nsites);
		else o.kind = profile == 3 ? (vp_chance(r, 1, 2) ? OP_OPEN : OP_CLOSE) : OP_ENABLE;
		if (o.kind == OP_FREMOVE && vp_chance(r, 2, 3)) {
			/* usually name a filter that was really added */
			int c[MAXOPS], n = 0; for (int i = 0; i < nops; i++) if (OPS[i].kind == OP_FADD && OPS[i].target == o.target) c[n++] = i;
			if (n) { struct op *a = &OPS[c[vp_u(r, (uint32_t)n)]]; o.ftype = a->ftype; o.text = a->text; o.hi = a->hi; o.lo = a->lo; }
		}
		if (o.kind == OP_TCLEAR && vp_chance(r, 2, 3)) {
			int c[MAXOPS], n = 0; for (int i = 0; i < nops; i++) if (OPS[i].kind == OP_TSET) c[n++] = i;
			if (n) { struct op *a = &OPS[c[vp_u(r, (uint32_t)n)]]; o.ftype = a->ftype; o.text = a->text; o.hi = a->hi; o.lo = a->lo; }
		}
		OPS[nops++] = o;
	}
}

static const char *features(char *b, size_t n)
{
	snprintf(b, n, "%s%s%s%s%s%s%s", feat_remove_overlap ? "remove-overlap+" : "", feat_added_while_disabled ? "filter-added-while-disabled+" : "",
		 feat_site_born_while_disabled ? "site-born-while-target-disabled+" : "", feat_slot_reuse ? "slot-reuse+" : "",
		 feat_tag_overlap ? "tag-overlap+" : "", feat_tag_clear ? "tag-clear+" : "", feat_regex ? "regex+" : "");
	size_t l = strlen(b); if (l) b[l - 1] = 0; else snprintf(b, n, "plain");
	return b;
}

static int fails(int which) /* 1: model oracle, 2: metamorphic */
{
	if (which == 1) return run_history(0, 0, 1) >= 0;
	run_history(0, 1, 0); run_history(1, 0, 0);
	return meta_differs();
}

static void shrink(int which)
{
	n_shrinks++;
	for (int pass = 0; pass < 3; pass++) {
		int removed = 0;
		for (int i = nops - 1; i >= 0; i--) {
			if (OPS[i].skip) continue;
			OPS[i].skip = 1;
			if (fails(which)) removed++; else OPS[i].skip = 0;
		}
		if (!removed) break;
	}
}

static void describe(char *b, size_t n)
{
	size_t o = 0; static const char *K[] = { "ADD", "REMOVE", "CLEAR_ALL", "TAG_SET", "TAG_CLEAR", "TAG_CLEAR_ALL", "ENABLE", "DISABLE", "OPEN", "CLOSE", "LOG" };
	for (int i = 0; i < nops && o + 80 < n; i++) {
		struct op *p = &OPS[i]; if (p->skip) continue;
		if (p->kind == OP_LOG) o += (size_t)snprintf(b + o, n - o, "LOG(%s:%d %s prio%d '%s'); ", S[p->site].file, S[p->site].line, S[p->site].func, S[p->site].prio, S[p->site].fmt);
		else if (p->kind <= OP_TCLEAR) o += (size_t)snprintf(b + o, n - o, "%s(t%d type%d '%s' %d..%d%s); ", K[p->kind], p->target, p->ftype, TEXT[p->text], p->hi, p->lo, p->kind == OP_TSET ? " val" : "");
		else o += (size_t)snprintf(b + o, n - o, "%s(t%d); ", K[p->kind], p->target);
	}
}

static void run_case(long kase)
{
	vprng_t r; vp_seed(&r, vp.seed, (uint64_t)kase);
	gen_case(&r);
	ballast = vp_chance(&r, 1, 6) ? 28 - NT : 0; if (ballast < 0) ballast = 0; if (ballast) n_ballast_cases++;
	char fb[200], hist[1500];
	int f1 = run_history(0, 0, 1);
	int had_overlap = feat_remove_overlap, had_tags = ntagf || feat_tag_clear;
	uint64_t h = vp_hash_u64((uint64_t)nsites, (uint64_t)(feat_remove_overlap | feat_added_while_disabled << 1 | feat_site_born_while_disabled << 2 | feat_slot_reuse << 3 | feat_tag_overlap << 4 | feat_regex << 5));
	if (f1 >= 0) {
		shrink(1);
		run_history(0, 0, 1);
		static const char *FK[] = { "?", "delivered-but-not-selected-or-disabled", "selected-and-enabled-but-not-delivered", "delivered-twice", "wrong-tags" };
		char key[256]; snprintf(key, sizeof key, "route:model:%s:%s", FK[model_fail_kind], features(fb, sizeof fb));
		describe(hist, sizeof hist);
		vp_violation(key, "shrunk history: %s", hist);
		for (int i = 0; i < nops; i++) OPS[i].skip = 0;
	}
	run_history(0, 1, 0); run_history(1, 0, 0);
	n_meta_compared++;
	if (meta_differs()) {
		shrink(2);
		run_history(0, 1, 0); run_history(1, 0, 0);
		char key[256]; snprintf(key, sizeof key, "route:age-dependent:%s", features(fb, sizeof fb));
		describe(hist, sizeof hist);
		vp_violation(key, "deliveries differ between call sites created up front (%d) and at first use (%d); shrunk history: %s", nD[0], nD[1], hist);
		for (int i = 0; i < nops; i++) OPS[i].skip = 0;
	}
	/* the part of the history outside the known overlap classes is always judged: drop every operation that
	 * overlapped (iterate, dropping one can make another overlap) and require both oracles to hold */
	if (had_overlap || feat_tag_overlap || feat_remove_overlap) {
		int clean = 0;
		for (int it = 0; it < 8 && !clean; it++) {
			int f = run_history(0, 0, 1); (void)f;
			clean = 1;
			for (int i = 0; i < nops; i++) if (overlapping[i] && !OPS[i].skip) { OPS[i].skip = 1; clean = 0; }
		}
		if (clean) {
			n_sanitised++;
			int f2 = run_history(0, 0, 1);
			if (f2 >= 0) {
				shrink(1); run_history(0, 0, 1);
				static const char *FK[] = { "?", "delivered-but-not-selected-or-disabled", "selected-and-enabled-but-not-delivered", "delivered-twice", "wrong-tags" };
				char key[256]; snprintf(key, sizeof key, "route:model:%s:%s", FK[model_fail_kind], features(fb, sizeof fb));
				describe(hist, sizeof hist); vp_violation(key, "overlap-free part; shrunk history: %s", hist);
			} else {
				run_history(0, 1, 0); run_history(1, 0, 0);
				if (meta_differs()) {
					shrink(2); run_history(0, 1, 0); run_history(1, 0, 0);
					char key[256]; snprintf(key, sizeof key, "route:age-dependent:%s", features(fb, sizeof fb));
					describe(hist, sizeof hist); vp_violation(key, "overlap-free part; shrunk history: %s", hist);
				}
			}
		}
		for (int i = 0; i < nops; i++) OPS[i].skip = 0;
	}
	vp_distinct(vp_hash_u64(h, (uint64_t)nops * 7 + (uint64_t)had_overlap + (uint64_t)had_tags * 2));
	if (kase % 97 == 0) { describe(hist, 900); vp_sample("case=%ld sites=%d ops=%d deliveries=%d: %s", kase, nsites, nops, nD[1], hist); }
}

int main(int argc, char **argv)
{
	vp_init(argc, argv);
	for (long k = vp.case_from; k < vp.case_to; k++) { vp_begin_case(k); run_case(k); }
	vp_count("cases_with_all_dynamic_slots_in_use", n_ballast_cases); vp_max("highest_target_slot_used", max_slot_seen); vp_count("log_calls", n_log_calls); vp_count("deliveries", n_deliveries); vp_count("calls_judged_by_model", n_model_judged);
	vp_count("histories_compared_old_vs_new_sites", n_meta_compared); vp_count("filter_and_tag_ops", n_filter_ops); vp_count("shrinks", n_shrinks); vp_count("overlap_free_variants_judged", n_sanitised);
	vp_finish();
	return 0;
}
