/* Common harness support: PRNG, case bookkeeping, violation / statistics
 * reporting protocol understood by vplib/runner.py.
 *
 * stdout protocol (one record per line):
 *   V {"key":..., "case":N, "detail":...}    a monitor fired
 *   D {"key":..., "case":N, "detail":...}    diagnostic (never decides)
 *   S {...}                                  final statistics of this process
 * stderr: sanitizer reports; "VP-CASE <n> <desc>" from the error callbacks.
 */
#ifndef VP_H
#define VP_H
#include <stdint.h>
#include <stdio.h>
#include <stdlib.h>
#include <string.h>
#include <stdarg.h>
#include <unistd.h>
#include <signal.h>
#include <errno.h>

typedef struct { uint64_t s; } vprng_t;

static inline uint64_t vp_mix(uint64_t z)
{
	z += 0x9e3779b97f4a7c15ULL;
	z = (z ^ (z >> 30)) * 0xbf58476d1ce4e5b9ULL;
	z = (z ^ (z >> 27)) * 0x94d049bb133111ebULL;
	return z ^ (z >> 31);
}
static inline void vp_seed(vprng_t *r, uint64_t seed, uint64_t kase)
{
	r->s = vp_mix(vp_mix(seed) ^ vp_mix(kase * 0x2545F4914F6CDD1DULL + 1));
	if (!r->s) r->s = 1;
}
static inline uint64_t vp_next(vprng_t *r)
{
	r->s += 0x9e3779b97f4a7c15ULL;
	uint64_t z = r->s;
	z = (z ^ (z >> 30)) * 0xbf58476d1ce4e5b9ULL;
	z = (z ^ (z >> 27)) * 0x94d049bb133111ebULL;
	return z ^ (z >> 31);
}
/* uniform in [0,n) ; n>0 */
static inline uint32_t vp_u(vprng_t *r, uint32_t n) { return (uint32_t)(vp_next(r) % n); }
static inline int vp_chance(vprng_t *r, uint32_t num, uint32_t den) { return vp_u(r, den) < num; }
static inline uint64_t vp_hash_bytes(uint64_t h, const void *p, size_t n)
{
	const unsigned char *c = p;
	for (size_t i = 0; i < n; i++) h = (h ^ c[i]) * 0x100000001b3ULL;
	return h;
}
static inline uint64_t vp_hash_u64(uint64_t h, uint64_t v) { return vp_mix(h ^ vp_mix(v)); }

/* ---- process-global bookkeeping ------------------------------------ */
#define VP_MAXCNT 96
#define VP_MAXDIST (1u << 18)
#define VP_MAXSAMPLES 6

struct vp_state {
	uint64_t seed;
	long case_from, case_to;
	volatile long cur_case;
	char cur_desc[256];
	int nviol;
	int ncnt;
	struct { const char *name; long long v; int is_max; } cnt[VP_MAXCNT];
	uint64_t *dist; unsigned ndist;   /* open addressing hash set */
	unsigned ndist_over;
	int nsamples;
	char *samples[VP_MAXSAMPLES];
	vprng_t librng; /* feeds the wrapped random() inside libqb */
};
extern struct vp_state vp;
extern FILE *vp_out;
extern int vp_quiet;

void vp_init(int argc, char **argv);          /* parses --seed --from --to, installs handlers */
const char *vp_arg(const char *name, const char *dflt);
long vp_argl(const char *name, long dflt);
void vp_begin_case(long n);                    /* sets cur_case, reseeds librng */
void vp_desc(const char *fmt, ...);            /* describes the current case/step for crash witness */
void vp_violation(const char *key, const char *fmt, ...);
void vp_diag(const char *key, const char *fmt, ...);
void vp_count(const char *name, long long delta);
void vp_max(const char *name, long long v);
void vp_distinct(uint64_t h);
void vp_sample(const char *fmt, ...);
void vp_finish(void);                          /* prints the S line */
void vp_json_str(FILE *f, const char *s);

#define VP_CHECK(cond, key, ...) do { if (!(cond)) vp_violation(key, __VA_ARGS__); } while (0)

#endif
