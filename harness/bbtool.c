/* C15 / C11(blackbox part) / C14(third leg):
 *   --mode roundtrip : log -> dump -> print; printed records must be a suffix of the logged ones (C11) with all
 *                      fields intact (C15, C14: message text as printf would produce it)
 *   --mode corrupt   : print damaged / arbitrary files in forked children (ASan + guard zones + RLIMIT_CPU):
 *                      must terminate with a result code, no crash, no /dev/shm leftovers
 * Each harness process runs in its own mount namespace with a private tmpfs on /dev/shm, because
 * qb_log_blackbox_print_from_file() uses the fixed ring name "create_from_file".
 */
#define _GNU_SOURCE
#include "vp.h"
#include <sched.h>
#include <sys/mount.h>
#include <sys/wait.h>
#include <sys/resource.h>
#include <sys/stat.h>
#include <sys/file.h>
#include <dirent.h>
#include <fcntl.h>
#include <time.h>
#include <qb/qbdefs.h>
#include <qb/qblog.h>

static char workdir[128];
static int private_shm, lock_fd = -1;
static long n_dumps, n_printed_records, n_logged, n_files, n_rc_ok, n_rc_err, n_truncs, n_field, n_random, n_arbitrary, n_wrapped_dumps;

static void setup_namespace(void)
{
	if (unshare(CLONE_NEWNS) == 0 && mount("none", "/", NULL, MS_REC | MS_PRIVATE, NULL) == 0 &&
	    mount("tmpfs", "/dev/shm", "tmpfs", 0, "size=256m") == 0) { private_shm = 1; return; }
	/* fall back: serialise everybody who prints on one lock file */
	lock_fd = open("/tmp/vp-bb-print.lock", O_CREAT | O_RDWR, 0600);
}
static void print_lock(void) { if (lock_fd >= 0) flock(lock_fd, LOCK_EX); }
static void print_unlock(void) { if (lock_fd >= 0) flock(lock_fd, LOCK_UN); }

static int shm_leftovers(char *names, size_t n)
{
	DIR *d = opendir("/dev/shm"); int c = 0; size_t o = 0; names[0] = 0;
	if (!d) return 0;
	struct dirent *e;
	while ((e = readdir(d))) {
		if (e->d_name[0] == '.') continue;
		if (!private_shm && !strstr(e->d_name, "create_from_file")) continue;
		if (strstr(e->d_name, "-blackbox-")) continue;          /* the live blackbox of this process */
		c++; if (o + 60 < n) o += (size_t)snprintf(names + o, n - o, "%s ", e->d_name);
	}
	closedir(d);
	return c;
}

/* run qb_log_blackbox_print_from_file(path) in a child; stdout to out_path (or /dev/null).
 * returns wait status; child's stderr in err_path */
extern int vpguard_fail_mmap_countdown; static int child_fail_mmap;   /* >0: the k-th mmap of the printing child fails */
static long n_failed_mmap_prints;
static int print_in_child(const char *path, const char *out_path, const char *err_path)
{
	fflush(NULL);
	print_lock();
	pid_t p = fork();
	if (p == 0) {
		struct rlimit rl = { 5, 6 }; setrlimit(RLIMIT_CPU, &rl);
		int o = open(out_path ? out_path : "/dev/null", O_WRONLY | O_CREAT | O_TRUNC, 0600); dup2(o, 1);
		int e = open(err_path, O_WRONLY | O_CREAT | O_TRUNC, 0600); dup2(e, 2);
		vp_out = NULL; vp_quiet = 1;
		signal(SIGABRT, SIG_DFL);
		vpguard_fail_mmap_countdown = child_fail_mmap;
		int rc = qb_log_blackbox_print_from_file(path);
		vpguard_fail_mmap_countdown = 0;
		fflush(stdout);
		_exit(rc == 0 ? 0 : 3);
	}
	int st = 0; waitpid(p, &st, 0);
	print_unlock();
	return st;
}

static void classify_crash(int st, const char *err_path, const char *cls, char *key, size_t kn, char *detail, size_t dn)
{
	char buf[6000]; buf[0] = 0;
	int fd = open(err_path, O_RDONLY); if (fd >= 0) { ssize_t n = read(fd, buf, sizeof buf - 1); if (n > 0) buf[n] = 0; close(fd); }
	char what[200] = "";
	char *s = strstr(buf, "SUMMARY: AddressSanitizer: ");
	if (s) {
		char kind[64] = "", fn[80] = ""; s += 27;
		sscanf(s, "%63s", kind);
		char *in = strstr(s, " in "); if (in && in < strchr(s, '\n') + (strchr(s, '\n') ? 0 : 0)) sscanf(in + 4, "%79s", fn);
		snprintf(what, sizeof what, "asan:%s:%s", kind, fn);
	} else if ((s = strstr(buf, "Assertion `")) != NULL) {
		char a[80]; int i = 0; s += 11; while (*s && *s != '\'' && i < 70) { a[i++] = (*s == ' ' || *s == '=' || *s == '>' || *s == '(' || *s == ')') ? '_' : *s; s++; } a[i] = 0;
		snprintf(what, sizeof what, "assert:%s", a);
	} else if ((s = strstr(buf, "runtime error:")) != NULL) snprintf(what, sizeof what, "ubsan");
	else if (WIFSIGNALED(st)) snprintf(what, sizeof what, "signal-%d", WTERMSIG(st));
	else snprintf(what, sizeof what, "exit-%d", WEXITSTATUS(st));
	snprintf(key, kn, "bb:print-crashed:%s:%s", what, cls);
	snprintf(detail, dn, "wait status 0x%x; stderr: %.700s", st, buf);
}

/* ---- round trip -------------------------------------------------------- */
struct rec { char fn[64]; uint32_t line, tags; uint8_t prio; char text[1400]; long t0_ms, t1_ms, ts_ms; int overlong; };
/* the time stamp the library took for a message is handed to every target: a custom target notes it, so that the printed
 * one can be compared exactly instead of against the harness' own clock readings */
static struct timespec cap_ts; static int cap_seen;
static void caplogger(int32_t t, struct qb_log_callsite *cs, struct timespec *ts, const char *msg) { (void)t; (void)cs; (void)msg; cap_ts = *ts; cap_seen = 1; }
static long n_ts_exact, n_ts_unjudged, n_empty_msgs, n_longline_cases; static int long_limit;
#define MAXREC 6000
static struct rec R[MAXREC]; static int nR;
static const char *PRIO[] = { "emerg", "alert", "crit", "error", "warning", "notice", "info", "debug", "trace" };

static long now_ms_of_day(void) { struct timespec ts; clock_gettime(CLOCK_REALTIME, &ts); return (long)((ts.tv_sec % 86400) * 1000 + ts.tv_nsec / 1000000); }

static void log_one(vprng_t *r)
{
	struct rec *x = &R[nR];
	/* a dynamic call site is identified by (file, line, priority, format): derive function and tags from the
	 * line so that two records of one call site agree on them */
	x->line = 1 + vp_u(r, 60000);
	uint64_t hh = vp_mix(x->line * 2654435761u);
	int fl = 1 + (int)(hh % ((hh >> 8) % 8 == 0 ? 60 : 12));
	for (int i = 0; i < fl; i++) { hh = vp_mix(hh); x->fn[i] = (char)('a' + hh % 26); }
	x->fn[fl] = 0;
	x->tags = (hh >> 20) % 2 ? 0 : 1 + (uint32_t)((hh >> 24) % 100000); x->prio = (uint8_t)vp_u(r, 9);
	static char s1[1200]; int sl;
	switch (vp_u(r, 8)) { case 0: sl = 0; break; case 1: sl = 400 + (int)vp_u(r, 700); break; default: sl = (int)vp_u(r, 60); }
	if (long_limit && vp_chance(r, 1, 3)) { sl = 500 + (int)vp_u(r, (uint32_t)(long_limit > 1150 ? 600 : long_limit - 540)); if (sl > 1100) sl = 1100; }
	for (int i = 0; i < sl; i++) s1[i] = (char)('A' + vp_u(r, 50)); s1[sl] = 0;
	for (int i = 0; i < sl; i++) if (s1[i] == '%' || s1[i] == '\\') s1[i] = '_';
	int num = (int)vp_u(r, 2000000) - 1000000; unsigned long long big = vp_next(r);
	x->t0_ms = now_ms_of_day(); cap_seen = 0;
	char full[3000];
	switch (vp_u(r, 7)) {
	case 6: { const char *nofmt = vp_chance(r, 1, 2) ? "" : "%s"; qb_log_from_external_source(x->fn, "bb.c", nofmt, x->prio, x->line, x->tags, ""); full[0] = 0; n_empty_msgs++; break; }   /* the shortest records there are: an empty message */
	case 0: qb_log_from_external_source(x->fn, "bb.c", "rec %d: %s", x->prio, x->line, x->tags, num, s1); snprintf(full, sizeof full, "rec %d: %s", num, s1); break;
	case 1: qb_log_from_external_source(x->fn, "bb.c", "%s|%5d|%-8s|%llx", x->prio, x->line, x->tags, s1, num, "ab", big); snprintf(full, sizeof full, "%s|%5d|%-8s|%llx", s1, num, "ab", big); break;
	case 2: qb_log_from_external_source(x->fn, "bb.c", "100%% of %d done %s", x->prio, x->line, x->tags, num, s1); snprintf(full, sizeof full, "100%% of %d done %s", num, s1); break;
	case 3: qb_log_from_external_source(x->fn, "bb.c", "%.3s/%s/%c/%08.3f", x->prio, x->line, x->tags, "truncate", s1, 'Z', 3.14159); snprintf(full, sizeof full, "%.3s/%s/%c/%08.3f", "truncate", s1, 'Z', 3.14159); break;
	case 4: qb_log_from_external_source(x->fn, "bb.c", "plain text, no arguments", x->prio, x->line, x->tags); snprintf(full, sizeof full, "plain text, no arguments"); break;
	default: qb_log_from_external_source(x->fn, "bb.c", "%zu %ld %s", x->prio, x->line, x->tags, (size_t)big, (long)num, s1); snprintf(full, sizeof full, "%zu %ld %s", (size_t)big, (long)num, s1); break;
	}
	x->t1_ms = now_ms_of_day();
	x->ts_ms = cap_seen ? (long)((cap_ts.tv_sec % 86400) * 1000 + cap_ts.tv_nsec / 1000000) : -1;
	/* what the property promises: the printf text while it fits the line limit, else the fixed notice */
	x->overlong = strlen(full) >= (size_t)((long_limit ? long_limit : 512) - 62);     /* near / over the 512 limit incl. the format and raw arguments: not judged for text */
	snprintf(x->text, sizeof x->text, "%s", full);
	size_t l = strlen(x->text); while (l > 0 && x->text[l - 1] == '\n') x->text[--l] = 0;
	nR++; n_logged++;
}

static void roundtrip_case(long kase)
{
	vprng_t r; vp_seed(&r, vp.seed, (uint64_t)kase);
	static const int SZ[] = { 1024, 1500, 4096, 8192, 20000, 65536, 262144 };
	int size = SZ[vp_u(&r, 7)];
	nR = 0;
	vp_desc("roundtrip size=%d", size);
	qb_log_init("vp-bb", LOG_USER, LOG_EMERG);
	qb_log_ctl(QB_LOG_SYSLOG, QB_LOG_CONF_ENABLED, QB_FALSE);
	/* only the harness' own call sites: libqb traces itself (qb_enter) and a forked printer shares the ring mapping */
	qb_log_filter_ctl(QB_LOG_BLACKBOX, QB_LOG_FILTER_ADD, QB_LOG_FILTER_FILE, "bb.c", LOG_TRACE);
	qb_log_ctl(QB_LOG_BLACKBOX, QB_LOG_CONF_SIZE, size);
	/* a fifth of the cases raise the blackbox's own line limit and log records longer than the default 512 bytes: the space
	 * reserved per record has to follow the limit, and the printer has to reproduce such records as well */
	long_limit = vp_chance(&r, 1, 5) ? 600 + (int)vp_u(&r, 3400) : 0;
	if (long_limit > size / 3) long_limit = size / 3 >= 600 ? size / 3 : 0;   /* a record has to fit the ring several times over */
	if (long_limit) { n_longline_cases++; if (qb_log_ctl(QB_LOG_BLACKBOX, QB_LOG_CONF_MAX_LINE_LEN, long_limit) != 0) long_limit = 0; }
	int rc = qb_log_ctl(QB_LOG_BLACKBOX, QB_LOG_CONF_ENABLED, QB_TRUE);
	if (rc != 0) { vp_violation("bb:enable-failed", "size %d rc %d", size, rc); qb_log_fini(); return; }
	int cap = qb_log_custom_open(caplogger, NULL, NULL, NULL);
	if (cap >= 0) { qb_log_filter_ctl(cap, QB_LOG_FILTER_ADD, QB_LOG_FILTER_FILE, "bb.c", LOG_TRACE); qb_log_ctl(cap, QB_LOG_CONF_ENABLED, QB_TRUE); }
	int ndumps = 1 + (int)vp_u(&r, 3);
	char path[200], out[200], err[200];
	snprintf(path, sizeof path, "%s/rt.fdata", workdir); snprintf(out, sizeof out, "%s/rt.out", workdir); snprintf(err, sizeof err, "%s/rt.err", workdir);
	uint64_t h = (uint64_t)size;
	for (int d = 0; d < ndumps; d++) {
		int burst = vp_chance(&r, 1, 3) ? 1 + (int)vp_u(&r, 5) : 5 + (int)vp_u(&r, size > 20000 ? 1500 : 300);
		for (int i = 0; i < burst && nR < MAXREC; i++) log_one(&r);
		unlink(path);
		vp_desc("roundtrip size=%d dump#%d after %d records", size, d, nR);
		ssize_t w = qb_log_blackbox_write_to_file(path);
		if (w <= 0) { vp_violation("bb:write-to-file-failed", "returned %zd after %d records (size %d)", w, nR, size); break; }
		n_dumps++;
		/* (cases with a raised line limit are judged like all others: the printer has to cope with records of that length) */
		int st = print_in_child(path, out, err);
		if (!WIFEXITED(st) || WEXITSTATUS(st) > 3) {
			char key[200], det[1000]; classify_crash(st, err, "valid-dump", key, sizeof key, det, sizeof det);
			vp_violation(key, "%s", det); break;
		}
		/* parse printed lines */
		FILE *f = fopen(out, "r"); if (!f) { vp_violation("bb:no-output", "cannot read %s", out); break; }
		static char line[4096]; int nprinted = 0, first_idx = -1, ok = 1, last_idx = -1;
		/* the printed records must be the newest ones: count them first, that fixes where the suffix starts */
		int total_lines = 0;
		while (fgets(line, sizeof line, f)) {
			if (strncmp(line, "ERROR", 5) == 0 || strncmp(line, "Ringbuffer", 10) == 0 || line[0] == ' ' || line[0] == '\n' || line[0] == 0) continue;
			total_lines++;
		}
		rewind(f);
		if (total_lines > nR) { vp_violation("bb:more-records-printed-than-logged", "printed %d logged %d", total_lines, nR); fclose(f); break; }
		last_idx = nR - total_lines - 1;
		while (fgets(line, sizeof line, f)) {
			size_t l = strlen(line); if (l && line[l - 1] == '\n') line[--l] = 0;
			if (strncmp(line, "ERROR", 5) == 0 || strncmp(line, "Ringbuffer", 10) == 0 || line[0] == ' ' || line[0] == 0) continue;
			/* "%-7s %s %s(%u):%u: %s": prio, "Mon DD HH:MM:SS.mmm", function(line):tags: message */
			char prio[16], mon[8], fn[128]; int dd, hh, mm, ss, ms; unsigned ln, tg; int off = 0;
			if (sscanf(line, "%15s %7s %d %d:%d:%d.%d %127[^(](%u):%u: %n", prio, mon, &dd, &hh, &mm, &ss, &ms, fn, &ln, &tg, &off) < 10 || off == 0) {
				vp_violation("bb:printed-line-unparsable", "[%.200s]", line); ok = 0; break;
			}
			const char *msg = line + off;
			/* locate in the logged sequence: must be the record right after the previous one */
			int idx = last_idx + 1;
			if (idx < 0 || idx >= nR) { vp_violation("bb:printed-record-never-logged", "[%.200s]", line); ok = 0; break; }
			struct rec *x = &R[idx];
			if (first_idx < 0) first_idx = idx;
			if (x->line != ln || strcmp(x->fn, fn) != 0 || x->tags != tg || strcmp(PRIO[x->prio], prio) != 0) {
				vp_violation("bb:record-fields-differ", "record #%d logged %s %s(%u):%u printed [%.200s] (gap or reorder in the dump?)", idx, PRIO[x->prio], x->fn, x->line, x->tags, line); ok = 0; break;
			}
			long tms = ((long)hh * 3600 + mm * 60 + ss) * 1000 + ms;
			if (x->ts_ms < 0) n_ts_unjudged++;
			else if (++n_ts_exact && tms != x->ts_ms) {
				vp_violation("bb:timestamp-differs", "record #%d stamped %ld ms of day by the library (harness clock before/after the call: %ld/%ld), printed %ld", idx, x->ts_ms, x->t0_ms, x->t1_ms, tms); ok = 0; break;
			}
			if (!x->overlong && strcmp(msg, x->text) != 0) {
				vp_violation("bb:message-text-differs", "record #%d logged [%.200s] printed [%.200s]", idx, x->text, msg); ok = 0; break;
			}
			last_idx = idx; nprinted++; n_printed_records++;
		}
		fclose(f);
		if (!ok) break;
		if (nprinted == 0) { vp_violation("bb:dump-prints-no-record", "after %d logged records (size %d); rc status 0x%x", nR, size, st); break; }
		if (last_idx != nR - 1) { vp_violation("bb:dump-does-not-end-with-last-record", "last printed #%d, last logged #%d", last_idx, nR - 1); break; }
		/* retention: conservative bound with the largest possible record (33 + fn + 512 of reserved space) */
		int kmin = size / (33 + 64 + (long_limit > 512 ? long_limit : 512) + 16); if (kmin > nR) kmin = nR; if (kmin < 1) kmin = 1;
		if (nprinted < kmin) { vp_violation("bb:dump-retains-too-few-records", "printed %d, size %d guarantees >= %d", nprinted, size, kmin); break; }
		if (first_idx > 0) n_wrapped_dumps++;
		h = vp_hash_u64(h, (uint64_t)nprinted * 131 + (uint64_t)(first_idx > 0));
		char left[300]; if (shm_leftovers(left, sizeof left)) { vp_violation("bb:shm-leftover-after-print", "%s", left); if (system("rm -f /dev/shm/qb-create_from_file-*")) {} break; }
		if (WEXITSTATUS(st) != 0) vp_diag("bb:valid-dump-print-returned-error", "exit %d", WEXITSTATUS(st));
		/* the same valid dump once more, with the printer running out of address space at its k-th mapping: it has to give up
		 * with a result code and leave nothing behind in /dev/shm (the name is fixed: a leftover blocks every later print) */
		if (vp_chance(&r, 1, 4)) for (int k = 1; k <= 6; k++) {
			child_fail_mmap = k; int st2 = print_in_child(path, NULL, err); child_fail_mmap = 0; n_failed_mmap_prints++;
			if (!WIFEXITED(st2) || WEXITSTATUS(st2) > 3) { char key[200], det[1000]; classify_crash(st2, err, "mapping-fails", key, sizeof key, det, sizeof det); vp_violation(key, "mmap #%d failing: %s", k, det); break; }
			char left2[300]; if (shm_leftovers(left2, sizeof left2)) { vp_violation("bb:shm-leftover-after-print:mapping-fails", "after the printer's mmap #%d failed: %s", k, left2); if (system("rm -f /dev/shm/qb-create_from_file-*")) {} break; }
		}
	}
	qb_log_fini();
	vp_distinct(h);
	if (kase % 23 == 0) vp_sample("roundtrip size=%d records=%d dumps=%d last-record=[%s %s(%u):%u: %.60s]", size, nR, ndumps, nR ? PRIO[R[nR - 1].prio] : "", nR ? R[nR - 1].fn : "", nR ? R[nR - 1].line : 0, nR ? R[nR - 1].tags : 0, nR ? R[nR - 1].text : "");
}

/* ---- corruption ----------------------------------------------------------- */
#define NBASE 6
static unsigned char *base[NBASE]; static size_t base_len[NBASE]; static int nbase;
#define CHUNK_MAGIC 0xA1A1A1A1u

static void make_bases(void)
{
	static const int SZ[NBASE] = { 1024, 1024, 4096, 4096, 65536, 16384 };
	static const int NREC[NBASE] = { 3, 200, 12, 900, 400, 1 };
	char path[200]; snprintf(path, sizeof path, "%s/base.fdata", workdir);
	for (int b = 0; b < NBASE; b++) {
		vprng_t r; vp_seed(&r, 4242, (uint64_t)b);
		nR = 0;
		qb_log_init("vp-bb", LOG_USER, LOG_EMERG);
		qb_log_ctl(QB_LOG_SYSLOG, QB_LOG_CONF_ENABLED, QB_FALSE);
		/* only the harness' own call sites: libqb traces itself (qb_enter) and a forked printer shares the ring mapping */
	qb_log_filter_ctl(QB_LOG_BLACKBOX, QB_LOG_FILTER_ADD, QB_LOG_FILTER_FILE, "bb.c", LOG_TRACE);
		qb_log_ctl(QB_LOG_BLACKBOX, QB_LOG_CONF_SIZE, SZ[b]);
		qb_log_ctl(QB_LOG_BLACKBOX, QB_LOG_CONF_ENABLED, QB_TRUE);
		for (int i = 0; i < NREC[b]; i++) log_one(&r);
		unlink(path);
		if (qb_log_blackbox_write_to_file(path) > 0) {
			FILE *f = fopen(path, "rb"); fseek(f, 0, SEEK_END); long n = ftell(f); fseek(f, 0, SEEK_SET);
			base[nbase] = malloc((size_t)n); base_len[nbase] = fread(base[nbase], 1, (size_t)n, f); fclose(f); nbase++;
		}
		qb_log_fini();
	}
}

static uint32_t rd32(const unsigned char *p) { uint32_t v; memcpy(&v, p, 4); return v; }
static void wr32(unsigned char *p, uint32_t v) { memcpy(p, &v, 4); }
static void fix_hash(unsigned char *f) { wr32(f + 36, rd32(f + 20) + rd32(f + 24) + rd32(f + 28) + rd32(f + 32)); }

static uint32_t interesting(vprng_t *r, uint32_t cur, uint32_t words, size_t flen)
{
	switch (vp_u(r, 16)) {
	case 0: return 0; case 1: return 1; case 2: return cur + 1; case 3: return cur - 1; case 4: return words; case 5: return words - 1;
	case 6: return words + 1; case 7: return (uint32_t)flen; case 8: return 0x7fffffffu; case 9: return 0x80000000u; case 10: return 0xffffffffu;
	case 11: return words * 2; case 12: return words * 4; case 13: return (uint32_t)flen / 4; case 14: return 0xfffffff0u; default: return (uint32_t)vp_next(r);
	}
}

static void corrupt_case(long kase)
{
	vprng_t r; vp_seed(&r, vp.seed, (uint64_t)kase);
	int b = (int)vp_u(&r, (uint32_t)nbase);
	size_t len = base_len[b];
	unsigned char *f = malloc(len + 64); memcpy(f, base[b], len);
	char cls[64] = "";
	uint32_t words = rd32(f + 20), wpt = rd32(f + 24), rpt = rd32(f + 28);
	int kind = (int)vp_u(&r, 100);
	/* truncations are enumerated, not sampled: case number selects the length for the first bases */
	if (kase < (long)base_len[0] + 1) { b = 0; len = base_len[0]; f = realloc(f, len + 64); memcpy(f, base[0], len); len = (size_t)kase; strcpy(cls, "truncated"); n_truncs++; }
	else if (kind < 12) { /* other truncations: around structural boundaries */
		static const size_t B[] = { 0, 1, 4, 19, 20, 21, 24, 28, 32, 36, 39, 40, 41, 44, 48 };
		size_t cut = vp_chance(&r, 1, 2) ? B[vp_u(&r, 15)] : vp_u(&r, (uint32_t)len + 1);
		if (vp_chance(&r, 1, 4)) cut = len - 1 - vp_u(&r, 64);
		if (cut < len) len = cut; strcpy(cls, "truncated"); n_truncs++;
	} else if (kind < 30) { /* ring file header words, hash recomputed so the change gets past the checksum */
		int w = (int)vp_u(&r, 5); uint32_t cur = rd32(f + 20 + 4 * w);
		wr32(f + 20 + 4 * w, interesting(&r, cur, words, len));
		if (w != 4 && vp_chance(&r, 5, 6)) fix_hash(f);
		static const char *N[] = { "hdr-word_size", "hdr-write_pt", "hdr-read_pt", "hdr-version", "hdr-hash" };
		strcpy(cls, N[w]); n_field++;
	} else if (kind < 36) { /* blackbox header */
		int w = (int)vp_u(&r, 5); wr32(f + 4 * w, interesting(&r, rd32(f + 4 * w), words, len)); strcpy(cls, "bb-header"); n_field++;
	} else if (kind < 75) { /* walk to a chunk and hit one of its fields */
		uint32_t p = rpt; int hops = (int)vp_u(&r, 6);
		const size_t D = 40;
		for (int i = 0; i < hops && p != wpt && p < words; i++) { uint32_t sz = rd32(f + D + 4 * (size_t)p); if (sz > words * 4) break; p = (p + 2 + (sz + 3) / 4) % words; }
		if (p >= words) p = 0;
		size_t off = D + 4 * (size_t)p;   /* chunk header: [size][magic] then payload */
		uint32_t csz = rd32(f + off);
		size_t pay = off + 8;
		switch (vp_u(&r, 9)) {
		case 0: wr32(f + off, interesting(&r, csz, words, len)); strcpy(cls, "chunk-size"); break;
		case 1: wr32(f + off + 4, vp_chance(&r, 1, 2) ? 0xD0D0D0D0u : (uint32_t)vp_next(&r)); strcpy(cls, "chunk-magic"); break;
		case 2: if (pay + 4 <= len) wr32(f + pay, interesting(&r, 0, words, len)); strcpy(cls, "rec-lineno"); break;
		case 3: if (pay + 9 <= len) f[pay + 8] = (unsigned char)vp_next(&r); strcpy(cls, "rec-priority"); break;
		case 4: if (pay + 13 <= len) wr32(f + pay + 9, interesting(&r, rd32(f + pay + 9), words, len)); strcpy(cls, "rec-fn_size"); break;
		case 5: { uint32_t fs = pay + 13 <= len ? rd32(f + pay + 9) : 0; if (fs && fs < 200 && pay + 13 + fs <= len) memset(f + pay + 13, 'F', fs); strcpy(cls, "rec-function-unterminated"); break; }
		case 6: { uint32_t fs = pay + 13 <= len ? rd32(f + pay + 9) : 0; size_t mo = pay + 13 + fs + 16; if (fs < 200 && mo + 4 <= len) wr32(f + mo, interesting(&r, rd32(f + mo), words, len)); strcpy(cls, "rec-msg_len"); break; }
		case 7: { uint32_t fs = pay + 13 <= len ? rd32(f + pay + 9) : 0; size_t mo = pay + 13 + fs + 20;
			  static const char *EV[] = { "%s%s%s%s%s%s%s%s", "%9999999d", "%*d%*d%*d", "%s", "%.999999999s%s", "%lld%lld%lld%lld%lld%lld%lld%lld%lld%lld", "%%%%%%%" };
			  const char *e = EV[vp_u(&r, 7)]; if (fs < 200 && mo + strlen(e) + 1 <= len && csz > 60) memcpy(f + mo, e, strlen(e)); strcpy(cls, "rec-format-hostile"); break; }
		default: { uint32_t fs = pay + 13 <= len ? rd32(f + pay + 9) : 0; size_t mo = pay + 13 + fs + 20; if (fs < 200 && mo + 300 <= len) for (size_t i = 0; i < 300; i++) if (f[mo + i] == 0) f[mo + i] = 'N'; strcpy(cls, "rec-message-unterminated"); break; }
		}
		n_field++;
	} else if (kind < 92) { /* random multi-byte corruption */
		int n = 1 + (int)vp_u(&r, 40);
		for (int i = 0; i < n; i++) f[vp_u(&r, (uint32_t)len)] = (unsigned char)vp_next(&r);
		if (vp_chance(&r, 1, 2)) fix_hash(f);
		strcpy(cls, "random-bytes"); n_random++;
	} else { /* something that never was a dump */
		switch (vp_u(&r, 4)) {
		case 0: len = 0; break;
		case 1: len = 1 + vp_u(&r, 4000); for (size_t i = 0; i < len; i++) f[i % (base_len[b])] = (unsigned char)vp_next(&r); if (len > base_len[b]) len = base_len[b]; break;
		case 2: len = 40; memset(f, 0, 40); break;
		default: len = 40 + vp_u(&r, 200); memset(f, 0xff, len < base_len[b] ? len : base_len[b]); if (len > base_len[b]) len = base_len[b]; break;
		}
		strcpy(cls, "not-a-dump"); n_arbitrary++;
	}
	char path[200], err[200];
	snprintf(path, sizeof path, "%s/c.fdata", workdir); snprintf(err, sizeof err, "%s/c.err", workdir);
	int fd = open(path, O_WRONLY | O_CREAT | O_TRUNC, 0600); if (write(fd, f, len) != (ssize_t)len) { close(fd); free(f); return; } close(fd);
	vp_desc("corrupt base=%d cls=%s len=%zu", b, cls, len);
	int st = print_in_child(path, NULL, err);
	n_files++;
	if (WIFEXITED(st) && WEXITSTATUS(st) <= 3) { if (WEXITSTATUS(st) == 0) n_rc_ok++; else n_rc_err++; }
	else {
		char key[200], det[1000]; classify_crash(st, err, cls, key, sizeof key, det, sizeof det);
		if (WIFSIGNALED(st) && WTERMSIG(st) == SIGXCPU) snprintf(key, sizeof key, "bb:print-does-not-terminate:%s", cls);
		vp_violation(key, "%s", det);
	}
	char left[300]; if (shm_leftovers(left, sizeof left)) { char k[96]; snprintf(k, sizeof k, "bb:shm-leftover-after-print:%s", cls);
		/* a crashed child is reported as such above; the leftover is only its consequence */
		if (WIFEXITED(st) && WEXITSTATUS(st) <= 3) vp_violation(k, "%s", left);
		/* clean up so that one leftover is reported once */
		DIR *d = opendir("/dev/shm"); struct dirent *e; while (d && (e = readdir(d))) if (strstr(e->d_name, "create_from_file")) { char p[300]; snprintf(p, sizeof p, "/dev/shm/%s", e->d_name); unlink(p); } if (d) closedir(d); }
	vp_distinct(vp_hash_u64(vp_hash_bytes(7, cls, strlen(cls)), (uint64_t)len * 31 + (uint64_t)b + ((uint64_t)WEXITSTATUS(st) << 40)));
	if (kase % 997 == 0) vp_sample("corrupt base=%d (%zu bytes) class=%s file-length=%zu -> wait status 0x%x", b, base_len[b], cls, len, st);
	free(f);
}

int main(int argc, char **argv)
{
	vp_init(argc, argv);
	setenv("TZ", "UTC", 1); tzset();
	setup_namespace();
	snprintf(workdir, sizeof workdir, "/tmp/vp-bb-%d", (int)getpid());
	mkdir(workdir, 0700);
	int corrupt = strcmp(vp_arg("--mode", "roundtrip"), "corrupt") == 0;
	/* the library prints ring headers on stdout when dumping: keep the protocol on a dup */
	vp_out = fdopen(dup(1), "w");
	int nul = open("/dev/null", O_WRONLY); dup2(nul, 1);
	if (corrupt) make_bases();
	for (long k = vp.case_from; k < vp.case_to; k++) { vp_begin_case(k); if (corrupt) corrupt_case(k); else roundtrip_case(k); }
	char cmd[200]; snprintf(cmd, sizeof cmd, "rm -rf %s", workdir); if (system(cmd)) {}
	vp_count("records_logged", n_logged); vp_count("dumps_written_and_printed", n_dumps); vp_count("records_printed_and_compared", n_printed_records);
	vp_count("dumps_that_had_wrapped", n_wrapped_dumps); vp_count("files_printed", n_files); vp_count("print_returned_ok", n_rc_ok); vp_count("print_returned_error", n_rc_err);
	vp_count("truncations", n_truncs); vp_count("field_corruptions", n_field); vp_count("random_corruptions", n_random); vp_count("non_dumps", n_arbitrary);
	vp_count("prints_with_a_failing_mapping", n_failed_mmap_prints); vp_count("cases_with_a_raised_blackbox_line_limit", n_longline_cases); vp_count("records_with_an_empty_message", n_empty_msgs); vp_count("timestamps_compared_exactly", n_ts_exact); vp_count("timestamps_not_judged", n_ts_unjudged);
	vp_count("private_dev_shm", private_shm);
	vp_finish();
	return 0;
}
