/* IPC test-bed: director + clients.  --mode c02 | c04 | c06 | c03 | c05 */
#include "ipcbed.h"
#include <sched.h>
#include <sys/mount.h>
#include <signal.h>
#include <dirent.h>
#include <sys/resource.h>

static char basedir[128];
static long n_flood_sends, n_flood_refused, n_gave_up, n_deferred_wakeups;
static long n_conns, n_msgs_checked, n_resp_checked, n_events_checked, n_refused_sends, n_emsgsize, n_poll_probes, n_server_runs, n_fc_eagain, n_event_eagain;

static void rm_rf(const char *d) { char cmd[300]; if (getenv("VP_KEEP")) return; snprintf(cmd, sizeof cmd, "rm -rf %s", d); if (system(cmd)) {} }

static pid_t start_server(const struct srv_cfg *cfg, const char *dir)
{
	fflush(NULL);
	pid_t p = fork();
	if (p == 0) {
		vp_out = NULL; vp_quiet = 1; signal(SIGABRT, SIG_DFL);
		char ep[300]; snprintf(ep, sizeof ep, "%s/server.err", dir); int e = open(ep, O_WRONLY | O_CREAT | O_TRUNC, 0600); if (e >= 0) { dup2(e, 2); close(e); }
		bed_server_main(cfg, dir);
	}
	/* wait for READY */
	for (int i = 0; i < 4000; i++) { long n; struct lrec *r = bed_log_read(dir, "server", &n); int ok = 0; for (long k = 0; k < n; k++) if (r[k].kind == L_SRV_READY) ok = 1; free(r); if (ok) break; usleep(500); }
	return p;
}
/* stop: wait until the server has destroyed every connection it accepted (bounded), then SIGTERM */
static int stop_server(pid_t p, const char *dir, int *status)
{
	for (int i = 0; i < 600; i++) {
		long n; struct lrec *r = bed_log_read(dir, "server", &n); long acc = 0, des = 0;
		for (long k = 0; k < n; k++) { if (r[k].kind == L_ACCEPT) acc++; if (r[k].kind == L_DESTROYED) des++; }
		free(r);
		if (acc == des) break;
		if (waitpid(p, status, WNOHANG) == p) return 1;
		usleep(2000);
	}
	kill(p, SIGTERM);
	for (int i = 0; i < 30000; i++) { if (waitpid(p, status, WNOHANG) == p) return 1; usleep(1000); }   /* a generous watchdog, not a deadline */
	kill(p, SIGKILL); waitpid(p, status, 0);
	return 0;
}

/* classify an abnormal end of the server from its stderr */
static void server_crash_key(const char *dir, int status, char *key, size_t kn, char *detail, size_t dn)
{
	char p[300], buf[8000]; snprintf(p, sizeof p, "%s/server.err", dir); buf[0] = 0;
	int fd = open(p, O_RDONLY); if (fd >= 0) { ssize_t n = read(fd, buf, sizeof buf - 1); if (n > 0) buf[n] = 0; close(fd); }
	char what[200];
	char *s = strstr(buf, "SUMMARY: AddressSanitizer: ");
	if (s) { char kind[64] = "", fn[80] = "?"; s += 27; sscanf(s, "%63s", kind); char *in = strstr(s, " in "); if (in) sscanf(in + 4, "%79s", fn); snprintf(what, sizeof what, "asan:%s:%s", kind, fn); }
	else if ((s = strstr(buf, "Assertion `")) != NULL) { char a[80]; int i = 0; s += 11; while (*s && *s != '\'' && i < 70) { a[i++] = (*s == ' ' || *s == '(' || *s == ')' || *s == '>' || *s == '=') ? '_' : *s; s++; } a[i] = 0; snprintf(what, sizeof what, "assert:%s", a); }
	else if ((s = strstr(buf, "runtime error:")) != NULL) snprintf(what, sizeof what, "ubsan:%.40s", s + 15);
	else if (WIFSIGNALED(status)) snprintf(what, sizeof what, "signal-%d", WTERMSIG(status));
	else snprintf(what, sizeof what, "exit-%d", WEXITSTATUS(status));
	for (char *q = what; *q; q++) if (*q == ' ' || *q == '\n') *q = '_';
	snprintf(key, kn, "ipc:server-crashed:%s", what);
	/* keep the frames, drop the addresses */
	char *w = buf; for (char *q = buf; *q; q++) { if (q[0] == ' ' && q[1] == '0' && q[2] == 'x' && q[3] != ' ') { *w++ = ' '; q += 3; while ((*q >= '0' && *q <= '9') || (*q >= 'a' && *q <= 'f')) q++; if (*q == ' ') q++; } *w++ = *q; if (!*q) break; } *w = 0;
	snprintf(detail, dn, "wait status 0x%x; stderr: %.1800s", status, buf);
}

static long n_floods_c;
/* =============================== library client (C02) =============================== */
struct cl_cfg { char name[64]; int idx; uint64_t seed; size_t max_msg; int nops; int slow; };

static uint32_t mkseq(int idx, uint32_t n) { return ((uint32_t)idx << 24) | (n & 0xffffff); }

/* receive one event if there is one (timeout as given); returns rc of event_recv */
struct evstate { uint32_t next; long known_pending; int dead; };
static ssize_t take_event(qb_ipcc_connection_t *c, unsigned char *rbuf, size_t maxsz, int tmo, struct evstate *es, int fd, int probe, const char *tag)
{
	if (probe) {
		/* "readable while an event is queued": with deferred wake-up bytes (full notification socket) there is a moment between
		 * the client taking the last byte and the server's next turn in which nothing is pending on the descriptor.  What a
		 * polling client needs is that the wake-up is not LOST: the descriptor becomes readable without any further help.
		 * 2 s stands for "never" here (the server is up and has nothing else to do), it is not a latency requirement */
		struct pollfd pf = { fd, POLLIN, 0 }; int pr = poll(&pf, 1, 0); int rd = pr > 0 && (pf.revents & POLLIN), waited = 0;
		if (!rd && es->known_pending > 0) { waited = 1; pf.revents = 0; pr = poll(&pf, 1, 2000); rd = pr > 0 && (pf.revents & POLLIN); }
		bed_log(L_C_POLL, 0, es->known_pending, rd, waited, 0, NULL);
	}
	ssize_t rc = qb_ipcc_event_recv(c, rbuf, maxsz, tmo);
	struct tp_res *e = (struct tp_res *)rbuf; int ok = -1;
	if (rc >= (ssize_t)TP_RES_MIN) { ok = e->plen + TP_RES_MIN == (size_t)rc && tp_cksum(e->payload, e->plen) == e->cksum && e->hdr.size == rc; if (es->known_pending > 0) es->known_pending--; }
	if (rc >= (ssize_t)TP_RES_MIN || (rc != -EAGAIN && rc != -ETIMEDOUT)) bed_log(L_C_EVENT, 0, rc >= (ssize_t)TP_RES_MIN ? e->seq : 0, rc, ok, es->next, tag);
	if (rc >= (ssize_t)TP_RES_MIN) es->next = e->seq + 1;
	if (rc == -ENOTCONN || rc == -ECONNRESET || rc == -EPIPE || rc == -ESHUTDOWN) es->dead = 1;
	return rc;
}
/* wait for a response, but keep consuming events meanwhile (the server queues the answer to an event
 * request behind the events, and the event channel is only as big as one maximal message) */
static ssize_t wait_response(qb_ipcc_connection_t *c, unsigned char *rbuf, unsigned char *ebuf, size_t maxsz, struct evstate *es, int fd, int rounds)
{
	for (int i = 0; i < rounds; i++) {
		ssize_t rr = qb_ipcc_recv(c, rbuf, maxsz, 15);
		if (rr != -EAGAIN && rr != -ETIMEDOUT) return rr;
		for (int k = 0; k < 64 && !es->dead; k++) if (take_event(c, ebuf, maxsz, 0, es, fd, 0, "while-waiting") < (ssize_t)TP_RES_MIN) break;
		if (es->dead) return -ENOTCONN;
	}
	return -ETIMEDOUT;
}

static void client_c02(const struct cl_cfg *cc, const char *dir)
{
	char nm[32]; snprintf(nm, sizeof nm, "client%d", cc->idx); bed_log_open(dir, nm);
	vprng_t r; vp_seed(&r, cc->seed, (uint64_t)cc->idx + 100);
	qb_ipcc_connection_t *c = qb_ipcc_connect(cc->name, cc->max_msg);
	bed_log(L_C_CONNECT, 0, c ? 0 : -errno, c ? qb_ipcc_get_buffer_size(c) : 0, (int64_t)cc->max_msg, 0, NULL);
	if (!c) _exit(0);
	size_t maxsz = (size_t)qb_ipcc_get_buffer_size(c);
	unsigned char *buf = malloc(maxsz + 4096), *rbuf = malloc(maxsz + 4096);
	uint32_t n = 0; uint32_t expect_resp[4096]; int nexp = 0, hexp = 0;
	struct evstate es = { 0, 0, 0 }; long ev_acked_total = 0; unsigned char *ebuf = malloc(maxsz + 4096);
	int fd = -1; qb_ipcc_fd_get(c, &fd);
	int dead = 0; long retry_budget = 0;   /* refusals are retried, but not for ever: a client that is refused ~150000 times (a minute) gives up and says so */
	if (vp_chance(&r, 1, 3)) qb_ipcc_fc_enable_max_set(c, 1 + vp_u(&r, 2));
	for (int op = 0; op < cc->nops && !dead; op++) {
		int k = (int)vp_u(&r, 100);
		struct tp_req *q = (struct tp_req *)buf;
		memset(q, 0, sizeof *q);
		/* message length: bare minimum .. exactly the negotiated maximum */
		size_t len;
		switch (vp_u(&r, 8)) { case 0: len = TP_REQ_MIN; break; case 1: len = maxsz; break; case 2: len = maxsz - 1 - vp_u(&r, 8); break; case 3: len = TP_REQ_MIN + vp_u(&r, 64); break; default: len = TP_REQ_MIN + vp_u(&r, (uint32_t)(maxsz - TP_REQ_MIN + 1)); }
		if (len < TP_REQ_MIN) len = TP_REQ_MIN; if (len > maxsz) len = maxsz;
		if (k < 6) { /* too large: must be refused without effect */
			size_t big = maxsz + 1 + vp_u(&r, 512);
			q->hdr.id = QB_IPC_MSG_USER_START + 1; q->hdr.size = (int32_t)big; q->op = OP_NORESP; q->seq = mkseq(cc->idx, 0xfffff0);
			ssize_t rc = qb_ipcc_send(c, q, big);
			bed_log(L_C_SEND, 0, q->seq, (int64_t)big, rc, -1, "oversize");
			continue;
		}
		int want_resp = 1;
		if (k < 40) { q->op = OP_ECHO; q->arg1 = (uint32_t)(vp_chance(&r, 1, 4) ? TP_RES_MIN + vp_u(&r, (uint32_t)(maxsz - TP_RES_MIN + 1)) : 0); }
		else if (k < 60) { q->op = OP_NORESP; want_resp = 0; }
		else if (k < 75) { q->op = OP_EVENTS; q->arg1 = 1 + vp_u(&r, vp_chance(&r, 1, 5) ? 400 : 12); q->arg2 = (uint32_t)(vp_chance(&r, 1, 3) ? maxsz : TP_RES_MIN + vp_u(&r, 300)); len = TP_REQ_MIN; }
		else if (k < 80) { q->op = OP_RATE; q->arg1 = vp_u(&r, 5); len = TP_REQ_MIN; }
		else if (k < 84) { q->op = OP_BACKOFF; q->arg1 = 1 + vp_u(&r, 3); len = TP_REQ_MIN; }
		else if (k < 86) { /* flood: the server is made to stall and gets hundreds of small one-way requests meanwhile, so that the
			 * request ring, the wake-up socket and the semaphore are all pushed to where sends are refused */
			int m = 150 + (int)vp_u(&r, 500); int fhow = (int)vp_u(&r, 2); n_floods_c++;
			for (int j = 0; j <= m && !dead; j++) {
				memset(q, 0, sizeof *q); n++;
				q->op = j == 0 ? OP_STALL : OP_NORESP; q->arg1 = 60 + vp_u(&r, 120); len = TP_REQ_MIN;
				q->hdr.id = QB_IPC_MSG_USER_START + 1 + (int32_t)(n % 50); q->hdr.size = (int32_t)len; q->seq = mkseq(cc->idx, n); q->plen = 0; q->cksum = tp_cksum(q->payload, 0);
				ssize_t frc; int ftries = 0;
				for (;;) {
					if (fhow == 0) frc = qb_ipcc_send(c, q, len); else { struct iovec iov[1] = { { q, len } }; frc = qb_ipcc_sendv(c, iov, 1); }
					bed_log(L_C_SEND, 0, q->seq, (int64_t)len, frc, q->op, "flood");
					if (frc == -EAGAIN || frc == -ENOBUFS || frc == -ETIMEDOUT) { if (++ftries > 8000 || ++retry_budget > 150000) break; usleep(300); continue; }
					break;
				}
				if (frc != (ssize_t)len && (frc == -ENOTCONN || frc == -ECONNRESET || frc == -EPIPE || frc == -ESHUTDOWN || frc == -EBADF)) dead = 1;
				if (retry_budget > 150000) { bed_log(L_C_NOTE, 0, retry_budget, 0, 0, 0, "gave-up-retrying"); dead = 2; }
				if (frc != (ssize_t)len) break;   /* a refused flood message ends the flood: the rest would only pile up behind it */
			}
			continue;
		}
		else if (k < 87) { /* two features at once: a backlog of unread events larger than the wake-up socket holds, and request flow
			 * control switched on while it exists.  The events must still reach the client (descriptor readable while any is queued) */
			for (int part = 0; part < 2 && !dead; part++) {
				memset(q, 0, sizeof *q); n++; len = TP_REQ_MIN;
				if (part == 0) { q->op = OP_EVENTS; q->arg1 = 300 + vp_u(&r, 150); q->arg2 = (uint32_t)TP_RES_MIN; }
				else { q->op = OP_RATE; q->arg1 = vp_chance(&r, 1, 2) ? QB_IPCS_RATE_OFF : QB_IPCS_RATE_OFF_2; q->arg2 = vp_chance(&r, 1, 2) ? 3500 : 0; /* the server keeps flow control on for 3.5 s: longer than a probe is willing to wait for a wake-up */ }
				q->hdr.id = QB_IPC_MSG_USER_START + 1 + (int32_t)(n % 50); q->hdr.size = (int32_t)len; q->seq = mkseq(cc->idx, n); q->plen = 0; q->cksum = tp_cksum(q->payload, 0);
				ssize_t brc; int bt = 0;
				for (;;) { brc = qb_ipcc_send(c, q, len); bed_log(L_C_SEND, 0, q->seq, (int64_t)len, brc, q->op, "backlog-under-fc"); if ((brc == -EAGAIN || brc == -ENOBUFS || brc == -ETIMEDOUT) && ++bt < 4000 && ++retry_budget <= 150000) { usleep(300); continue; } break; }
				if (brc == (ssize_t)len) expect_resp[nexp++ & 4095] = q->seq;
				else if (brc == -ENOTCONN || brc == -ECONNRESET || brc == -EPIPE || brc == -ESHUTDOWN || brc == -EBADF) dead = 1;
			}
			/* answers first (they say how many events there are), then the events, probing the descriptor before each */
			while (!dead && hexp < nexp) {
				ssize_t rr = wait_response(c, rbuf, ebuf, maxsz, &es, fd, 400); struct tp_res *s2 = (struct tp_res *)rbuf; int ok2 = -1;
				if (rr >= (ssize_t)TP_RES_MIN) ok2 = s2->plen + TP_RES_MIN == (size_t)rr && tp_cksum(s2->payload, s2->plen) == s2->cksum && s2->hdr.size == rr;
				if (rr >= 0 || (rr != -EAGAIN && rr != -ETIMEDOUT)) bed_log(L_C_RECV, 0, rr >= (ssize_t)TP_RES_MIN ? s2->seq : 0, rr, ok2, expect_resp[hexp & 4095], NULL);
				if (rr < 0) { if (rr != -EAGAIN && rr != -ETIMEDOUT) dead = 1; break; }
				if (rr >= (ssize_t)TP_RES_MIN && s2->arg2) { ev_acked_total += s2->arg1; es.known_pending = (long)s2->arg2 - (long)es.next; if (es.known_pending < 0) es.known_pending = 0; }
				hexp++;
			}
			for (int g = 0; g < 600 && !dead && es.known_pending > 0; g++) { take_event(c, rbuf, maxsz, 300, &es, fd, 1, NULL); if (es.dead) dead = 1; }
			continue;
		}
		else if (k < 92) { /* receive side work */
			if (es.known_pending > 0 || vp_chance(&r, 1, 3)) { take_event(c, rbuf, maxsz, es.known_pending > 0 ? 2000 : 0, &es, fd, 1, NULL); if (es.dead) dead = 1; }
			continue;
		} else { if (cc->slow) usleep(200 + vp_u(&r, 3000)); continue; }
		n++;
		q->hdr.id = QB_IPC_MSG_USER_START + 1 + (int32_t)(n % 50); q->hdr.size = (int32_t)len; q->seq = mkseq(cc->idx, n);
		q->plen = (uint32_t)(len - TP_REQ_MIN); tp_fill(q->payload, q->plen, cc->seed * 131 + q->seq); q->cksum = tp_cksum(q->payload, q->plen);
		ssize_t rc; int tries = 0;
		int how = (int)vp_u(&r, 3);
		for (;;) {
			if (how == 0) rc = qb_ipcc_send(c, q, len);
			else { struct iovec iov[2] = { { q, len / 2 }, { (char *)q + len / 2, len - len / 2 } }; rc = qb_ipcc_sendv(c, iov, 2); }
			bed_log(L_C_SEND, 0, q->seq, (int64_t)len, rc, q->op, NULL);
			if (rc == -EAGAIN || rc == -ENOBUFS || rc == -ETIMEDOUT) {
				/* not queued (peer slow / flow control): retrying must neither lose nor duplicate */
				if (++tries > 4000 || ++retry_budget > 150000) break;
				/* make room: flow control is lifted by the server only when it gets to run */
				usleep(300);
				continue;
			}
			break;
		}
		if (retry_budget > 150000) { bed_log(L_C_NOTE, 0, retry_budget, 0, 0, 0, "gave-up-retrying"); dead = 2; }
		if (rc != (ssize_t)len) { if (rc == -ENOTCONN || rc == -ECONNRESET || rc == -EPIPE || rc == -ESHUTDOWN || rc == -EBADF) dead = 1; continue; }
		if (want_resp) {
			expect_resp[nexp++ & 4095] = q->seq;
			if (how == 2 || vp_chance(&r, 2, 3) || nexp - hexp > 20) {
				while (hexp < nexp) {
					ssize_t rr = wait_response(c, rbuf, ebuf, maxsz, &es, fd, 200);
					struct tp_res *s = (struct tp_res *)rbuf; int ok = -1;
					if (rr >= (ssize_t)TP_RES_MIN) ok = s->plen + TP_RES_MIN == (size_t)rr && tp_cksum(s->payload, s->plen) == s->cksum && s->hdr.size == rr;
					if (rr >= 0 || (rr != -EAGAIN && rr != -ETIMEDOUT)) bed_log(L_C_RECV, 0, rr >= (ssize_t)TP_RES_MIN ? s->seq : 0, rr, ok, expect_resp[hexp & 4095], NULL);
					if (rr < 0) { if (rr != -EAGAIN && rr != -ETIMEDOUT) dead = 1; break; }   /* a time-out is no verdict: the answer stays owed */
					if (rr >= (ssize_t)TP_RES_MIN && s->arg2 && q->op == OP_EVENTS && s->seq == q->seq) { ev_acked_total += s->arg1; /* some were consumed while waiting */ es.known_pending = (long)s->arg2 - (long)es.next; if (es.known_pending < 0) es.known_pending = 0; }
					hexp++;
				}
			}
		}
	}
	/* barrier: one-way requests may still be queued; an answered echo behind them says they have all been handed over
	 * (a client that hangs up with requests still queued is not what this property is about) */
	if (!dead) {
		struct tp_req *q = (struct tp_req *)buf; memset(q, 0, sizeof *q); n++;
		q->op = OP_ECHO; q->hdr.id = QB_IPC_MSG_USER_START + 1; q->hdr.size = (int32_t)TP_REQ_MIN; q->seq = mkseq(cc->idx, n); q->cksum = tp_cksum(q->payload, 0);
		ssize_t brc; int bt = 0;
		for (;;) { brc = qb_ipcc_send(c, q, TP_REQ_MIN); bed_log(L_C_SEND, 0, q->seq, (int64_t)TP_REQ_MIN, brc, q->op, "barrier"); if ((brc == -EAGAIN || brc == -ENOBUFS || brc == -ETIMEDOUT) && ++bt < 20000) { usleep(500); continue; } break; }
		if (brc == (ssize_t)TP_REQ_MIN) expect_resp[nexp++ & 4095] = q->seq;
	}
	/* drain what is still owed */
	while (!dead && hexp < nexp) {
		ssize_t rr = wait_response(c, rbuf, ebuf, maxsz, &es, fd, 4000); struct tp_res *s = (struct tp_res *)rbuf; int ok = -1;   /* a minute: generous watchdog, not a deadline */
		if (rr >= (ssize_t)TP_RES_MIN) ok = s->plen + TP_RES_MIN == (size_t)rr && tp_cksum(s->payload, s->plen) == s->cksum;
		bed_log(L_C_RECV, 0, rr >= (ssize_t)TP_RES_MIN ? s->seq : 0, rr, ok, expect_resp[hexp & 4095], "final");
		if (rr < 0) break;
		hexp++;
	}
	/* the answers to the event requests told us how many events the server got accepted: wait for all of them
	 * (generous watchdog: a time-out alone is no verdict), then look once more for anything unannounced */
	for (int idle = 0; !dead && !es.dead && (long)es.next < ev_acked_total && idle < 200; ) { if (take_event(c, rbuf, maxsz, 300, &es, fd, 0, "drain") < (ssize_t)TP_RES_MIN) idle++; else idle = 0; }
	for (int i = 0; !dead && !es.dead && i < 100000; i++) if (take_event(c, rbuf, maxsz, 100, &es, fd, 0, "drain") < (ssize_t)TP_RES_MIN) break;
	if (es.dead) dead = 1;
	bed_log(L_C_DISCONNECT, 0, dead, 0, 0, 0, NULL);
	qb_ipcc_disconnect(c);
	_exit(0);
}

/* director for C02 */
static void case_c02(long kase)
{
	vprng_t r; vp_seed(&r, vp.seed, (uint64_t)kase);
	char dir[200]; snprintf(dir, sizeof dir, "%s/%ld", basedir, kase); mkdir(dir, 0700);
	struct srv_cfg sc; memset(&sc, 0, sizeof sc);
	snprintf(sc.name, sizeof sc.name, "vpipc-%d-%ld", (int)getpid(), kase);
	sc.type = vp_chance(&r, 1, 2) ? QB_IPC_SHM : QB_IPC_SOCKET; sc.seed = vp_next(&r);
	static const size_t MAXS[] = { 256, 512, 1000, 4096, 8192, 20000, 65536, 262144, 1048576 };
	size_t maxmsg = MAXS[vp_u(&r, sc.type == QB_IPC_SOCKET ? 6 : 9)];
	if (vp_chance(&r, 1, 5)) sc.enforce_buf = (uint32_t)MAXS[vp_u(&r, 6)];
	int nclients = 1 + (int)vp_u(&r, 3);
	vp_desc("c02 type=%s max=%zu enforce=%u clients=%d", sc.type == QB_IPC_SHM ? "shm" : "socket", maxmsg, sc.enforce_buf, nclients);
	pid_t sp = start_server(&sc, dir); n_server_runs++;
	pid_t cp[4];
	for (int i = 0; i < nclients; i++) {
		struct cl_cfg cc; memset(&cc, 0, sizeof cc); snprintf(cc.name, sizeof cc.name, "%s", sc.name); cc.idx = i + 1; cc.seed = vp_next(&r); cc.max_msg = maxmsg; cc.nops = 40 + (int)vp_u(&r, 160); cc.slow = (int)vp_u(&r, 2);
		fflush(NULL);
		cp[i] = fork();
		if (cp[i] == 0) { vp_out = NULL; vp_quiet = 1; signal(SIGABRT, SIG_DFL); client_c02(&cc, dir); }
	}
	int cst[4]; for (int i = 0; i < nclients; i++) waitpid(cp[i], &cst[i], 0);
	int sst = 0; int clean = stop_server(sp, dir, &sst);
	/* ---- offline checks over the merged history ---- */
	long ns; struct lrec *S = bed_log_read(dir, "server", &ns);
	char key[160];
	for (long k = 0; k < ns; k++) if (S[k].kind == L_SRV_VIOLATION) { snprintf(key, sizeof key, "%s", S[k].text); vp_violation(key, "server-side lifecycle monitor (conn %llx) [%s]", (unsigned long long)S[k].conn, vp.cur_desc); }
	if (!clean || !WIFEXITED(sst) || WEXITSTATUS(sst) != 0) {
		char det[2200]; if (!clean) { snprintf(key, sizeof key, "ipc:server-does-not-terminate"); snprintf(det, sizeof det, "had to be killed"); } else server_crash_key(dir, sst, key, sizeof key, det, sizeof det);
		vp_violation(key, "%s [%s]", det, vp.cur_desc);
	}
	for (int i = 0; i < nclients; i++) if (!WIFEXITED(cst[i]) || WEXITSTATUS(cst[i]) != 0) vp_violation("ipc:client-died", "client %d wait status 0x%x", i + 1, cst[i]);
	uint64_t h = vp_hash_u64((uint64_t)sc.type, maxmsg);
	int nontrivial = 0;
	for (int i = 0; i < nclients; i++) {
		char nm[32]; snprintf(nm, sizeof nm, "client%d", i + 1);
		long nc; struct lrec *C = bed_log_read(dir, nm, &nc);
		if (!C || nc == 0) { free(C); continue; }
		if (C[0].kind == L_C_CONNECT && C[0].a != 0) { vp_violation("ipc:connect-failed", "client %d connect errno %lld [%s]", i + 1, (long long)-C[0].a, vp.cur_desc); free(C); continue; }
		n_conns++;
		/* requests: accepted sends in order == msg_process in order */
		uint64_t conn = 0;
		for (long k = 0; k < ns && !conn; k++) if (S[k].kind == L_MSG && (S[k].a >> 24) == i + 1) conn = S[k].conn;
		long si = 0; int dead = 0, refused = 0, wrapped = 0;
		for (long k = 0; k < nc; k++) {
			if (C[k].kind == L_C_DISCONNECT) dead = (int)C[k].a;
			if (C[k].kind == L_C_NOTE && !strcmp(C[k].text, "gave-up-retrying")) { n_gave_up++; vp_diag("ipc:client-gave-up-retrying", "client %d was refused %lld times in total and stopped early: nothing it still owed is judged [%s]", i + 1, (long long)C[k].a, vp.cur_desc); }
			if (C[k].kind != L_C_SEND) continue;
			int64_t seq = C[k].a, len = C[k].b, rc = C[k].c;
			if (!strcmp(C[k].text, "flood")) { n_flood_sends++; if (rc < 0) n_flood_refused++; }
			if (rc == len) {
				while (si < ns && !(S[si].kind == L_MSG && S[si].conn == conn)) si++;
				if (si >= ns) { snprintf(key, sizeof key, "ipc:accepted-request-never-delivered:%s", sc.type == QB_IPC_SHM ? "shm" : "socket"); vp_violation(key, "client %d: send of seq %llx (len %lld) returned success, msg_process never got it [%s]", i + 1, (long long)seq, (long long)len, vp.cur_desc); break; }
				n_msgs_checked++;
				if (S[si].a != seq) { snprintf(key, sizeof key, "ipc:requests-reordered-lost-or-duplicated:%s", sc.type == QB_IPC_SHM ? "shm" : "socket"); vp_violation(key, "client %d sent seq %llx, server got seq %llx next [%s]", i + 1, (long long)seq, (long long)S[si].a, vp.cur_desc); break; }
				if (S[si].b != len) { vp_violation("ipc:request-length-differs", "seq %llx sent %lld bytes, msg_process told %lld", (long long)seq, (long long)len, (long long)S[si].b); }
				if (S[si].c != 1) { vp_violation("ipc:request-bytes-differ", "seq %llx checksum mismatch at the server", (long long)seq); }
				si++;
			} else if (rc == -EMSGSIZE) { n_emsgsize++; }
			else if (rc < 0) { refused++; n_refused_sends++; if (rc == -EAGAIN) n_fc_eagain++; }
			if (len > 60000) wrapped = 1;
		}
		/* nothing else may have reached the server for this connection */
		while (si < ns && !(S[si].kind == L_MSG && S[si].conn == conn)) si++;
		if (si < ns && conn) { vp_violation("ipc:request-delivered-without-accepted-send", "client %d: msg_process got seq %llx that no successful send produced (failed send had an effect?) [%s]", i + 1, (long long)S[si].a, vp.cur_desc); }
		/* responses */
		for (long k = 0; k < nc; k++) if (C[k].kind == L_C_RECV && C[k].b >= (int64_t)TP_RES_MIN) {
			n_resp_checked++;
			if (C[k].a != C[k].d) { vp_violation("ipc:responses-reordered-lost-or-duplicated", "client %d expected response seq %llx got %llx [%s]", i + 1, (long long)C[k].d, (long long)C[k].a, vp.cur_desc); break; }
			if (C[k].c != 1) vp_violation("ipc:response-bytes-differ", "seq %llx", (long long)C[k].a);
		} else if (C[k].kind == L_C_RECV && C[k].b < 0 && !dead && C[k].b != -ENOTCONN && C[k].b != -ECONNRESET && strcmp(C[k].text, "final") == 0) {
			vp_violation("ipc:response-never-arrived", "client %d: recv for seq %llx returned %lld although the request was accepted and the server is alive [%s]", i + 1, (long long)C[k].d, (long long)C[k].b, vp.cur_desc);
		}
		/* events: accepted by the server == received by the client, in order */
		long ei = 0; int64_t prev = -1; long got_ev = 0;
		for (long k = 0; k < nc; k++) if (C[k].kind == L_C_EVENT && C[k].b >= (int64_t)TP_RES_MIN) {
			got_ev++; n_events_checked++;
			while (ei < ns && !(S[ei].kind == L_EVENT_SEND && S[ei].conn == conn && S[ei].c == S[ei].b)) ei++;
			if (ei >= ns) { vp_violation("ipc:event-received-that-was-never-accepted", "client %d got event seq %lld", i + 1, (long long)C[k].a); break; }
			if (S[ei].a != C[k].a) { snprintf(key, sizeof key, "ipc:events-reordered-lost-or-duplicated:%s", sc.type == QB_IPC_SHM ? "shm" : "socket"); vp_violation(key, "client %d got event seq %lld, server's next accepted event was seq %lld (prev %lld) [%s]", i + 1, (long long)C[k].a, (long long)S[ei].a, (long long)prev, vp.cur_desc); break; }
			if (C[k].c != 1) vp_violation("ipc:event-bytes-differ", "event seq %lld", (long long)C[k].a);
			prev = C[k].a; ei++;
		}
		if (!dead) { /* the client drained until a 300 ms timeout: everything accepted must have arrived */
			long acc = 0; for (long k = 0; k < ns; k++) if (S[k].kind == L_EVENT_SEND && S[k].conn == conn && S[k].c == S[k].b) acc++;
			long neag = 0; for (long k = 0; k < ns; k++) if (S[k].kind == L_EVENT_SEND && S[k].conn == conn && S[k].c == -EAGAIN) neag++;
			n_event_eagain += neag;
			if (acc != got_ev) { snprintf(key, sizeof key, "ipc:accepted-events-never-received:%s", sc.type == QB_IPC_SHM ? "shm" : "socket"); vp_violation(key, "client %d: server's event send accepted %ld, client received %ld [%s]", i + 1, acc, got_ev, vp.cur_desc); }
			if (neag || refused) nontrivial = 1;
		}
		/* pollability: known-pending events => fd readable */
		for (long k = 0; k < nc; k++) if (C[k].kind == L_C_POLL) { n_poll_probes++; if (C[k].a > 0 && C[k].c) n_deferred_wakeups++; if (C[k].a > 0 && C[k].b == 0) { snprintf(key, sizeof key, "ipc:fd-not-readable-with-event-queued:%s", sc.type == QB_IPC_SHM ? "shm" : "socket"); vp_violation(key, "client %d: %lld events known to be queued and unread, poll() says not readable, also after waiting 2 s (lost wake-up) [%s]", i + 1, (long long)C[k].a, vp.cur_desc); break; } }
		h = vp_hash_u64(h, (uint64_t)refused * 3 + (uint64_t)wrapped);
		free(C);
	}
	free(S);
	if (nontrivial) vp_distinct(h ^ vp_mix((uint64_t)kase));
	if (kase % 37 == 0) vp_sample("c02 case=%ld transport=%s requested-max=%zu enforce=%u clients=%d", kase, sc.type == QB_IPC_SHM ? "shm" : "socket", maxmsg, sc.enforce_buf, nclients);
	rm_rf(dir);
}

#include "ipcbed_extra.inc"

/* a private /dev/shm per harness process: files of killed servers of other runs (and recycled pids) cannot be mistaken
 * for residue of this one.  Without the privilege the audits fall back to comparing against their own baseline. */
static int private_shm;
static void setup_namespace(void)
{
	if (unshare(CLONE_NEWNS) == 0 && mount("none", "/", NULL, MS_REC | MS_PRIVATE, NULL) == 0 &&
	    mount("tmpfs", "/dev/shm", "tmpfs", 0, "size=4g") == 0) private_shm = 1;
}

int main(int argc, char **argv)
{
	vp_init(argc, argv);
	signal(SIGPIPE, SIG_IGN);
	setup_namespace();
	snprintf(basedir, sizeof basedir, "/tmp/vp-ipc-%d", (int)getpid()); mkdir(basedir, 0700);
	const char *m = vp_arg("--mode", "c02");
	for (long k = vp.case_from; k < vp.case_to; k++) {
		vp_begin_case(k);
		if (!strcmp(m, "c02")) case_c02(k);
		else extra_case(m, k);
	}
	rm_rf(basedir);
	vp_count("private_dev_shm", private_shm); vp_count("server_runs", n_server_runs); vp_count("connections", n_conns); vp_count("requests_checked", n_msgs_checked); vp_count("responses_checked", n_resp_checked);
	vp_count("flood_sends_at_stalled_server", n_flood_sends); vp_count("flood_sends_refused", n_flood_refused); vp_count("clients_that_gave_up_retrying", n_gave_up); vp_count("probes_readable_only_after_the_servers_next_turn", n_deferred_wakeups); vp_count("events_checked", n_events_checked); vp_count("sends_refused_and_retried", n_refused_sends); vp_count("sends_refused_by_flow_control", n_fc_eagain);
	vp_count("oversize_sends_refused", n_emsgsize); vp_count("poll_probes", n_poll_probes); vp_count("event_sends_refused_at_server", n_event_eagain);
	extra_counts();
	vp_finish();
	return 0;
}
