/* C19: growable array - address stability, disjointness, zero-init,
 * persistence, range errors; --mode seq (model) | mt (threads; asan + tsan). */
#include "vp.h"
#include <pthread.h>
#include <sched.h>
#include <qb/qbdefs.h>
#include <qb/qbarray.h>

#define MAXI 65536
static void *addr[MAXI];          /* first address seen per index (shared between threads: CAS) */
static int visited[MAXI]; static int nvis; static int vlist[4096];
/* failpoint: the next allocation made while armed fails (armed by the sequential stage around one library call) */
static int fail_alloc_armed; static long n_enomem;
void *__real_malloc(size_t n); void *__real_calloc(size_t a, size_t b); void *__real_realloc(void *p, size_t n);
void *__wrap_malloc(size_t n) { if (fail_alloc_armed) { fail_alloc_armed = 0; errno = ENOMEM; return NULL; } return __real_malloc(n); }
void *__wrap_calloc(size_t a, size_t b) { if (fail_alloc_armed) { fail_alloc_armed = 0; errno = ENOMEM; return NULL; } return __real_calloc(a, b); }
void *__wrap_realloc(void *p, size_t n) { if (fail_alloc_armed) { fail_alloc_armed = 0; errno = ENOMEM; return NULL; } return __real_realloc(p, n); }
static long n_beyond;
static long n_index_ok, n_range_err, n_grow, n_autogrow, n_newbins, n_addr_checks;

static void pat(unsigned char *p, size_t es, uint64_t kase, int idx)
{
	uint64_t x = vp_mix(vp.seed ^ (kase << 20) ^ (uint64_t)idx);
	for (size_t i = 0; i < es; i++) { if ((i & 7) == 0) x = vp_mix(x); p[i] = (unsigned char)(x >> ((i & 7) * 8)) | 1; }
}

static int pick_idx(vprng_t *r, size_t cur)
{
	switch (vp_u(r, 12)) {
	case 0: return -1 - (int)vp_u(r, 5);
	case 1: return MAXI + (int)vp_u(r, 3);
	case 2: return (int)(0x7fffffffu - vp_u(r, 2));
	case 3: return MAXI - 1 - (int)vp_u(r, 2);
	case 4: return (int)cur + (int)vp_u(r, 3);            /* just beyond */
	case 5: return (int)cur - 1 - (int)vp_u(r, 2);
	case 6: return (int)(16 * vp_u(r, 40) + (vp_chance(r, 1, 2) ? 15 : 0)); /* bin edges */
	case 7: return (int)vp_u(r, MAXI);
	case 8: return nvis ? vlist[vp_u(r, (uint32_t)nvis)] : 0;  /* revisit */
	case 9: return nvis ? vlist[vp_u(r, (uint32_t)nvis)] : 1;
	default: return cur ? (int)vp_u(r, (uint32_t)(cur > MAXI ? MAXI : cur)) : 0;
	}
}

static int cmp_addr(const void *a, const void *b)
{
	uintptr_t x = (uintptr_t)addr[*(const int *)a], y = (uintptr_t)addr[*(const int *)b];
	return x < y ? -1 : x > y;
}

static void seq_case(long kase)
{
	static const size_t ES[] = { 1, 3, 8, 24, 200, 4096 };
	static const size_t INIT[] = { 0, 1, 15, 16, 17, 100, 1000, MAXI - 1, MAXI };
	static const size_t AG[] = { 0, 0, 1, 16 };
	vprng_t r; vp_seed(&r, vp.seed, (uint64_t)kase);
	size_t es = ES[vp_u(&r, 6)], init = INIT[vp_u(&r, 9)], ag = AG[vp_u(&r, 4)];
	if (vp_chance(&r, 1, 6)) init = vp_u(&r, MAXI + 1);
	if (vp_chance(&r, 1, 6)) es = 1 + vp_u(&r, 300);
	qb_array_t *a = qb_array_create_2(init, es, ag);
	vp_desc("es=%zu init=%zu ag=%zu", es, init, ag);
	if (!a) { vp_violation("array:create-failed", "create_2(%zu,%zu,%zu) errno=%d", init, es, ag, errno); return; }
	for (int i = 0; i < nvis; i++) { addr[vlist[i]] = NULL; visited[vlist[i]] = 0; }
	nvis = 0;
	size_t cur = init;
	int nops = 100 + (int)vp_u(&r, 300), saw_grow = 0, saw_range = 0, saw_auto = 0;
	char tr[500]; size_t tn = 0; tr[0] = 0;
	for (int op = 0; op < nops; op++) {
		if (vp_chance(&r, 1, 8)) {
			size_t n;
			switch (vp_u(&r, 5)) {
			case 0: n = cur ? vp_u(&r, (uint32_t)cur) : 0; break;         /* shrink request = no-op */
			case 1: n = cur + 1 + vp_u(&r, 40); break;
			case 2: n = MAXI; break;
			case 3: n = MAXI + 1 + vp_u(&r, 100); break;                   /* must be refused */
			default: n = vp_u(&r, MAXI + 1); break;
			}
			vp_desc("es=%zu init=%zu ag=%zu op=%d grow(%zu) cur=%zu", es, init, ag, op, n, cur);
			int rc = qb_array_grow(a, n);
			n_grow++;
			if (n > MAXI) { if (rc == 0) vp_violation("array:grow-beyond-max-accepted", "grow(%zu) returned 0", n); }
			else if (rc != 0) vp_violation("array:grow-failed", "grow(%zu) returned %d", n, rc);
			else if (n > cur) { cur = n; saw_grow = 1; }
			if (tn < sizeof tr - 24) tn += (size_t)snprintf(tr + tn, 24, "g%zu:%d ", n, rc);
			continue;
		}
		int idx = pick_idx(&r, cur);
		void *p = (void *)0x1;
		vp_desc("es=%zu init=%zu ag=%zu op=%d index(%d) cur=%zu", es, init, ag, op, idx, cur);
		/* now and then the allocation that this call may need fails: the call reports it, and the array is as it was (a
		 * repeat of the call succeeds, everything handed out before stays where it is: the later checks see to that) */
		if (vp_chance(&r, 1, 12) && idx >= 0 && idx < MAXI && ((size_t)idx < cur || ag)) {
			void *pf = (void *)0x1; fail_alloc_armed = 1; int rf = qb_array_index(a, idx, &pf); int fired = !fail_alloc_armed; fail_alloc_armed = 0;
			if (fired) { n_enomem++; if (rf == 0) vp_violation("array:index-succeeds-although-allocation-failed", "index(%d) returned 0", idx); }
			else if (rf == 0 && (size_t)idx >= cur) { cur = (size_t)idx + 1; }   /* no allocation was needed and the call auto-grew the array */
		}
		int rc = qb_array_index(a, idx, &p);
		if (tn < sizeof tr - 24) tn += (size_t)snprintf(tr + tn, 24, "i%d:%d ", idx, rc);
		if (idx < 0 || idx >= MAXI) {
			n_range_err++; saw_range = 1;
			if (rc == 0) vp_violation("array:index-outside-range-accepted", "index(%d) returned 0", idx);
			continue;
		}
		if ((size_t)idx >= cur) {
			if (ag == 0) {
				n_range_err++; saw_range = 1;
				if (rc == 0) vp_violation("array:index-beyond-size-accepted", "index(%d) size=%zu autogrow=0 returned 0", idx, cur);
				else if (rc != -ERANGE) vp_violation("array:beyond-size-not-erange", "index(%d) size=%zu returned %d", idx, cur, rc);
				continue;
			}
			if (rc != 0) { vp_violation("array:autogrow-failed", "index(%d) size=%zu autogrow=%zu returned %d", idx, cur, ag, rc); continue; }
			cur = (size_t)idx + 1; n_autogrow++; saw_auto = 1;
		} else if (rc != 0) {
			vp_violation("array:index-in-range-failed", "index(%d) size=%zu returned %d", idx, cur, rc);
			continue;
		}
		n_index_ok++;
		unsigned char *e = p, want[4096 + 8];
		if (!visited[idx]) {
			if (nvis >= 4096) continue;
			for (size_t i = 0; i < es; i++) if (e[i]) { vp_violation("array:element-not-zero", "index %d byte %zu = 0x%02x at first sight", idx, i, e[i]); break; }
			addr[idx] = p; visited[idx] = 1; vlist[nvis++] = idx;
			pat(e, es, (uint64_t)kase, idx);
		} else {
			n_addr_checks++;
			if (addr[idx] != p) vp_violation("array:address-changed", "index %d was %p now %p", idx, addr[idx], p);
			else { pat(want, es, (uint64_t)kase, idx); if (memcmp(want, e, es)) vp_violation("array:content-lost", "index %d pattern changed (size now %zu)", idx, cur); }
		}
	}
	/* final sweep: patterns intact, storage disjoint */
	static int order[4096];
	for (int i = 0; i < nvis; i++) order[i] = vlist[i];
	qsort(order, (size_t)nvis, sizeof(int), cmp_addr);
	for (int i = 0; i < nvis; i++) {
		unsigned char want[4096 + 8];
		pat(want, es, (uint64_t)kase, order[i]);
		if (memcmp(want, addr[order[i]], es)) vp_violation("array:content-lost", "index %d pattern changed at end", order[i]);
		if (i + 1 < nvis && (uintptr_t)addr[order[i]] + es > (uintptr_t)addr[order[i + 1]])
			vp_violation("array:elements-overlap", "index %d at %p (+%zu) overlaps index %d at %p", order[i], addr[order[i]], es, order[i + 1], addr[order[i + 1]]);
	}
	if (saw_grow || saw_range || saw_auto)
		vp_distinct(vp_hash_u64(vp_hash_u64(es * 131 + ag, init), (uint64_t)(saw_grow | saw_range << 1 | saw_auto << 2) ^ ((uint64_t)nvis << 8)));
	if (kase % 331 == 0) vp_sample("seq case=%ld es=%zu init=%zu autogrow=%zu visited=%d final=%zu: %s", kase, es, init, ag, nvis, cur, tr);
	qb_array_free(a);
}

/* ---- multi-threaded ------------------------------------------------ */
struct mt { qb_array_t *a; int T, t; long kase; size_t es; int nops; pthread_barrier_t *bar; int explicit_grow; int *fail; int ag; };

static void *mt_thread(void *arg)
{
	struct mt *m = arg;
	vprng_t r; vp_seed(&r, vp.seed ^ 0x77, (uint64_t)m->kase * 16 + (uint64_t)m->t);
	unsigned char want[256];
	pthread_barrier_wait(m->bar);
	for (int op = 0; op < m->nops; op++) {
		int idx;
		switch (vp_u(&r, 4)) {
		case 0: idx = (int)vp_u(&r, 64); break;
		case 1: idx = (int)vp_u(&r, 2048); break;
		case 2: idx = (int)(16 * vp_u(&r, 200)); break;   /* first element of a bin: forces bin allocation */
		default: idx = (int)vp_u(&r, 20000); break;
		}
		if (vp_chance(&r, 1, 12)) {
			/* beyond the documented maximum: refused, with or without auto-grow, and without disturbing the other threads */
			static const int BEYOND[] = { 65536, 65537, 70000, 1 << 20, 0x7fffffff };
			void *q = NULL; int rb = qb_array_index(m->a, BEYOND[vp_u(&r, 5)], &q); __atomic_add_fetch(&n_beyond, 1, __ATOMIC_RELAXED);
			if (rb == 0) { vp_violation("array:index-beyond-maximum-accepted", "thread %d: index >= 65536 returned 0", m->t); *m->fail = 1; }
		}
		if (m->explicit_grow && vp_chance(&r, 1, 4)) { qb_array_grow(m->a, (size_t)idx + 1 + vp_u(&r, 64)); __atomic_add_fetch(&n_grow, 1, __ATOMIC_RELAXED); }
		if (vp_chance(&r, 1, 5)) sched_yield();
		void *p = NULL;
		int rc = qb_array_index(m->a, idx, &p);
		if (rc != 0) {
			if (m->ag) { vp_violation("array:mt-autogrow-index-failed", "thread %d index(%d) returned %d", m->t, idx, rc); *m->fail = 1; }
			continue;
		}
		__atomic_add_fetch(&n_index_ok, 1, __ATOMIC_RELAXED);
		void *expected = NULL;
		if (!__atomic_compare_exchange_n(&addr[idx], &expected, p, 0, __ATOMIC_ACQ_REL, __ATOMIC_ACQUIRE)) {
			__atomic_add_fetch(&n_addr_checks, 1, __ATOMIC_RELAXED);
			if (expected != p) { vp_violation("array:address-changed", "mt: index %d was %p, thread %d got %p", idx, expected, m->t, p); *m->fail = 1; }
		}
		if (idx % m->T == m->t) { /* this thread owns the element */
			unsigned char *e = p;
			pat(want, m->es, (uint64_t)m->kase, idx);
			if (!__atomic_exchange_n(&visited[idx], 1, __ATOMIC_ACQ_REL)) {
				for (size_t i = 0; i < m->es; i++) if (e[i]) { vp_violation("array:element-not-zero", "mt: index %d byte %zu", idx, i); break; }
				memcpy(e, want, m->es);
			} else if (memcmp(e, want, m->es)) {
				vp_violation("array:content-lost", "mt: index %d pattern changed (thread %d)", idx, m->t); *m->fail = 1;
			}
		}
	}
	return NULL;
}

static void mt_case(long kase)
{
	vprng_t r; vp_seed(&r, vp.seed, (uint64_t)kase);
	int T = 2 + (int)vp_u(&r, 7);
	size_t es = 1 + vp_u(&r, 64);
	int explicit_grow = (int)vp_u(&r, 2);
	size_t init = vp_u(&r, 3) == 0 ? 0 : vp_u(&r, 64);
	int ag = explicit_grow ? (vp_u(&r, 2) ? 16 : 0) : 16;
	qb_array_t *a = qb_array_create_2(init, es, (size_t)ag);
	vp_desc("mt T=%d es=%zu init=%zu explicit_grow=%d", T, es, init, explicit_grow);
	if (!a) { vp_violation("array:create-failed", "mt create failed"); return; }
	memset(addr, 0, sizeof addr); memset(visited, 0, sizeof visited);
	pthread_barrier_t bar; pthread_barrier_init(&bar, NULL, (unsigned)T);
	pthread_t th[8]; struct mt m[8]; int fail = 0;
	int nops = 300 + (int)vp_u(&r, 1500);
	for (int t = 0; t < T; t++) {
		m[t] = (struct mt){ a, T, t, kase, es, nops, &bar, explicit_grow && vp_u(&r, 4) != 0, &fail, ag };
		pthread_create(&th[t], NULL, mt_thread, &m[t]);
	}
	for (int t = 0; t < T; t++) pthread_join(th[t], NULL);
	pthread_barrier_destroy(&bar);
	/* quiescent check: every recorded address still answers, owned patterns intact, disjoint */
	int cnt = 0; static int order[MAXI];
	for (int i = 0; i < MAXI; i++) if (addr[i]) {
		void *p = NULL;
		if (qb_array_index(a, i, &p) != 0 || p != addr[i]) vp_violation("array:address-changed", "mt end: index %d was %p now %p", i, addr[i], p);
		if (visited[i]) { unsigned char want[256]; pat(want, es, (uint64_t)kase, i); if (memcmp(want, addr[i], es)) vp_violation("array:content-lost", "mt end: index %d", i); }
		order[cnt++] = i;
	}
	qsort(order, (size_t)cnt, sizeof(int), cmp_addr);
	for (int i = 0; i + 1 < cnt; i++)
		if ((uintptr_t)addr[order[i]] + es > (uintptr_t)addr[order[i + 1]])
			vp_violation("array:elements-overlap", "mt: index %d and %d overlap", order[i], order[i + 1]);
	vp_distinct(vp_hash_u64(vp_hash_u64((uint64_t)T * 1000 + es, (uint64_t)explicit_grow), (uint64_t)cnt));
	vp_max("max_threads", T);
	vp_count("mt_distinct_indices_touched", cnt);
	if (kase % 37 == 0) vp_sample("mt case=%ld threads=%d es=%zu init=%zu explicit_grow=%d ops/thread=%d indices=%d", kase, T, es, init, explicit_grow, nops, cnt);
	qb_array_free(a);
}

int main(int argc, char **argv)
{
	vp_init(argc, argv);
	int mt = strcmp(vp_arg("--mode", "seq"), "mt") == 0;
	for (long k = vp.case_from; k < vp.case_to; k++) { vp_begin_case(k); if (mt) mt_case(k); else seq_case(k); }
	vp_count("index_ok", n_index_ok); vp_count("range_errors_seen", n_range_err); vp_count("grow_calls", n_grow);
	vp_count("index_calls_with_a_failing_allocation", n_enomem); vp_count("mt_indexes_beyond_the_maximum_refused", n_beyond); vp_count("autogrows", n_autogrow); vp_count("address_stability_checks", n_addr_checks);
	vp_finish();
	return 0;
}
