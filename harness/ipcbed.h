/* IPC test-bed shared definitions: test protocol, event log records. */
#ifndef IPCBED_H
#define IPCBED_H
#define _GNU_SOURCE
#include "vp.h"
#include <time.h>
#include <fcntl.h>
#include <poll.h>
#include <sys/stat.h>
#include <sys/wait.h>
#include <sys/socket.h>
#include <sys/un.h>
#include <sys/uio.h>
#include <qb/qbdefs.h>
#include <qb/qbloop.h>
#include <qb/qbipcs.h>
#include <qb/qbipcc.h>
#include <qb/qbrb.h>

/* ---- test protocol (body behind struct qb_ipc_request_header / response_header) ---- */
enum { OP_ECHO = 1, OP_NORESP, OP_EVENTS, OP_RATE, OP_DISCONNECT_ME, OP_REF, OP_UNREF, OP_CLOSED_RETRY, OP_BACKOFF, OP_EVENTS_LATER, OP_DESTROY_SERVICE, OP_ITERATE, OP_STALL };

struct tp_req {
	struct qb_ipc_request_header hdr;
	uint32_t op, seq, arg1, arg2;
	uint32_t plen; uint32_t pad;
	uint64_t cksum;
	unsigned char payload[];
};
struct tp_res {
	struct qb_ipc_response_header hdr;
	uint32_t seq, arg1, arg2, plen;
	uint64_t cksum;
	unsigned char payload[];
};
#define TP_REQ_MIN (sizeof(struct tp_req))
#define TP_RES_MIN (sizeof(struct tp_res))

static inline uint64_t tp_cksum(const unsigned char *p, size_t n) { return vp_hash_bytes(0xcbf29ce484222325ULL, p, n); }
static inline void tp_fill(unsigned char *p, size_t n, uint64_t seed) { uint64_t x = seed; for (size_t i = 0; i < n; i++) { if ((i & 7) == 0) x = vp_mix(x + i); p[i] = (unsigned char)(x >> ((i & 7) * 8)); } }

/* ---- event log ---------------------------------------------------------------- */
enum {
	/* server side */
	L_ACCEPT = 1, L_CREATED, L_MSG, L_CLOSED, L_DESTROYED, L_EVENT_SEND, L_RESP_SEND, L_SRV_VIOLATION, L_SRV_FINAL, L_SRV_READY, L_SRV_NOTE,
	/* client side */
	L_C_CONNECT = 100, L_C_SEND, L_C_RECV, L_C_EVENT, L_C_POLL, L_C_DISCONNECT, L_C_NOTE, L_C_VIOLATION,
};
struct lrec {
	uint64_t t;            /* CLOCK_MONOTONIC ns */
	int32_t pid, kind;
	uint64_t conn;
	int64_t a, b, c, d;
	char text[48];
};

static inline uint64_t mono_ns(void) { struct timespec ts; clock_gettime(CLOCK_MONOTONIC, &ts); return (uint64_t)ts.tv_sec * 1000000000ULL + (uint64_t)ts.tv_nsec; }

extern int bed_logfd;
void bed_log_open(const char *dir, const char *name);
void bed_log(int kind, uint64_t conn, int64_t a, int64_t b, int64_t c, int64_t d, const char *text);
struct lrec *bed_log_read(const char *dir, const char *name, long *n);

/* ---- server ------------------------------------------------------------------- */
struct srv_cfg {
	char name[64];
	enum qb_ipc_type type;
	uint32_t enforce_buf;        /* 0 = none */
	int accept_policy;           /* 0 accept all; 1 by uid/gid table (C05) */
	int read_all_bytes;          /* msg_process touches every byte it was told about (C06) */
	int lifecycle_random;        /* C04: random actions inside callbacks */
	int accept_delay_ms;         /* the accept callback takes this long (C03: the peer can die meanwhile) */
	uint64_t seed;
};
void bed_server_main(const struct srv_cfg *cfg, const char *dir) __attribute__((noreturn));

/* accept policy shared by server and director (C05) */
int bed_accept_decision(uid_t uid, gid_t gid, uid_t *auid, gid_t *agid, mode_t *amode, int *use_auth);

#endif
