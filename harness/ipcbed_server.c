/* IPC test-bed: the server process.  A generic, client-driven responder that logs every
 * callback and runs the per-connection lifecycle automaton (C04) online. */
#include "ipcbed.h"
#include <dirent.h>
#include <signal.h>

int bed_logfd = -1;
static char bed_dir[200];

void bed_log_open(const char *dir, const char *name)
{
	char p[300]; snprintf(p, sizeof p, "%s/%s.log", dir, name);
	bed_logfd = open(p, O_WRONLY | O_CREAT | O_APPEND, 0600);
}
void bed_log(int kind, uint64_t conn, int64_t a, int64_t b, int64_t c, int64_t d, const char *text)
{
	struct lrec r; memset(&r, 0, sizeof r);
	r.t = mono_ns(); r.pid = getpid(); r.kind = kind; r.conn = conn; r.a = a; r.b = b; r.c = c; r.d = d;
	if (text) snprintf(r.text, sizeof r.text, "%s", text);
	if (bed_logfd >= 0 && write(bed_logfd, &r, sizeof r) != sizeof r) {}
}
struct lrec *bed_log_read(const char *dir, const char *name, long *n)
{
	char p[300]; snprintf(p, sizeof p, "%s/%s.log", dir, name);
	*n = 0;
	int fd = open(p, O_RDONLY); if (fd < 0) return NULL;
	struct stat st; fstat(fd, &st);
	struct lrec *r = malloc((size_t)st.st_size + sizeof *r);
	ssize_t got = read(fd, r, (size_t)st.st_size); close(fd);
	*n = got > 0 ? got / (long)sizeof *r : 0;
	return r;
}

int bed_accept_decision(uid_t uid, gid_t gid, uid_t *auid, gid_t *agid, mode_t *amode, int *use_auth)
{
	static const int ERR[] = { EACCES, EPERM, EAGAIN, ENOMEM, EBUSY, EINVAL };
	static const mode_t MODES[] = { 0600, 0660, 0640, 0666, 0606 };
	*use_auth = 0;
	if (uid % 5 == 3) return -ERR[gid % 6];
	if (uid % 5 == 1) { *use_auth = 1; *auid = 4000 + gid % 7; *agid = 5000 + uid % 7; *amode = MODES[(uid / 5 + gid) % 5]; }
	return 0;
}

/* ---- per-connection application state + lifecycle automaton --------------------- */
enum { LC_ACCEPTED = 1, LC_CREATED, LC_CLOSING, LC_CLOSED, LC_DESTROYED };
struct outmsg { struct outmsg *next; int is_event; uint32_t seq; size_t len; unsigned char data[]; };
struct sconn {
	uint32_t magic; int id; qb_ipcs_connection_t *c;
	int lc; int created_disconnected; int app_refs; int client_refs; /* app_refs = all references the application holds; client_refs = those taken by OP_REF */ int closed_calls; int closed_retry_left; int backoff_left;
	uint32_t ev_seq; struct outmsg *out_head, *out_tail; int timer_armed; int dead; int refused;
	struct sconn *next;
};
static struct sconn *conns; static int nconn_ids;
static qb_loop_t *loop; static qb_ipcs_service_t *svc; static struct srv_cfg cfg; static vprng_t srng;
static int svc_destroyed;

static void sviol(const char *key, qb_ipcs_connection_t *c, const char *fmt, ...)
{
	char b[48]; va_list ap; va_start(ap, fmt); vsnprintf(b, sizeof b, fmt, ap); va_end(ap);
	bed_log(L_SRV_VIOLATION, (uint64_t)(uintptr_t)c, 0, 0, 0, 0, key);
	bed_log(L_SRV_NOTE, (uint64_t)(uintptr_t)c, 0, 0, 0, 0, b);
}
static struct sconn *find_conn(qb_ipcs_connection_t *c) { for (struct sconn *s = conns; s; s = s->next) if (s->c == c && !s->dead) return s; return NULL; }

static void flush_outbox(struct sconn *sc);
static void outbox_timer(void *data) { struct sconn *sc = data; sc->timer_armed = 0; if (!sc->dead && sc->lc == LC_CREATED) flush_outbox(sc); }
static void flush_outbox(struct sconn *sc)
{
	while (sc->out_head) {
		struct outmsg *m = sc->out_head;
		ssize_t rc = m->is_event ? qb_ipcs_event_send(sc->c, m->data, m->len) : qb_ipcs_response_send(sc->c, m->data, m->len);
		bed_log(m->is_event ? L_EVENT_SEND : L_RESP_SEND, (uint64_t)(uintptr_t)sc->c, m->seq, (int64_t)m->len, rc, sc->id, NULL);
		if (rc == (ssize_t)m->len) { sc->out_head = m->next; if (!sc->out_head) sc->out_tail = NULL; free(m); continue; }
		if (rc == -EAGAIN || rc == -ENOBUFS || rc == -ETIMEDOUT) {
			if (!sc->timer_armed) { qb_loop_timer_handle th; if (qb_loop_timer_add(loop, QB_LOOP_MED, 500000, sc, outbox_timer, &th) == 0) sc->timer_armed = 1; }
			return;
		}
		/* hard error (peer gone, too big): drop everything */
		while (sc->out_head) { m = sc->out_head; sc->out_head = m->next; free(m); }
		sc->out_tail = NULL;
		return;
	}
}
static void enqueue(struct sconn *sc, int is_event, uint32_t seq, uint32_t a1, uint32_t a2, const unsigned char *payload, uint32_t plen, size_t total_len)
{
	if (total_len < TP_RES_MIN) total_len = TP_RES_MIN;
	struct outmsg *m = calloc(1, sizeof *m + total_len);
	struct tp_res *r = (struct tp_res *)m->data;
	m->is_event = is_event; m->seq = seq; m->len = total_len;
	r->hdr.id = (int32_t)seq; r->hdr.size = (int32_t)total_len; r->hdr.error = 0;
	r->seq = seq; r->arg1 = a1; r->arg2 = a2;
	uint32_t room = (uint32_t)(total_len - TP_RES_MIN);
	r->plen = room;
	if (payload && plen <= room) memcpy(r->payload, payload, plen);
	if (!payload || plen < room) tp_fill(r->payload + (payload ? plen : 0), room - (payload ? plen : 0), (uint64_t)seq * 77 + (uint64_t)is_event);
	r->cksum = tp_cksum(r->payload, room);
	if (sc->out_tail) sc->out_tail->next = m; else sc->out_head = m;
	sc->out_tail = m;
}

static void random_lifecycle_action(struct sconn *sc, const char *where);
static void restore_rate(void *data) { (void)data; static const enum qb_ipcs_rate_limit RL[] = { QB_IPCS_RATE_FAST, QB_IPCS_RATE_NORMAL, QB_IPCS_RATE_SLOW }; if (!svc_destroyed) qb_ipcs_request_rate_limit(svc, RL[vp_u(&srng, 3)]); }

/* ---- callbacks ------------------------------------------------------------------ */
static int32_t cb_accept(qb_ipcs_connection_t *c, uid_t uid, gid_t gid)
{
	if (find_conn(c)) sviol("ipcs:accept-on-live-connection", c, "accept for %p", (void *)c);
	int rc = 0; uid_t au = 0; gid_t ag = 0; mode_t am = 0; int use = 0;
	if (cfg.accept_delay_ms > 0) usleep((useconds_t)cfg.accept_delay_ms * 1000);
	if (cfg.accept_policy == 1) rc = bed_accept_decision(uid, gid, &au, &ag, &am, &use);
	else if (cfg.accept_policy == 2 && vp_chance(&srng, 1, 6)) rc = -EACCES;
	char pidtxt[32] = ""; { struct qb_ipcs_connection_stats cst; if (qb_ipcs_connection_stats_get(c, &cst, 0) == 0) snprintf(pidtxt, sizeof pidtxt, "%d", (int)cst.client_pid); }
	bed_log(L_ACCEPT, (uint64_t)(uintptr_t)c, uid, gid, rc, nconn_ids, pidtxt);
	struct sconn *sc = calloc(1, sizeof *sc);
	sc->magic = 0xC0FFEE; sc->id = nconn_ids++; sc->c = c; sc->lc = LC_ACCEPTED; sc->next = conns; conns = sc; sc->refused = rc != 0;
	qb_ipcs_context_set(c, sc);
	if (rc == 0 && use) qb_ipcs_connection_auth_set(c, au, ag, am);
	return rc;
}
static void cb_created(qb_ipcs_connection_t *c)
{
	struct sconn *sc = find_conn(c);
	bed_log(L_CREATED, (uint64_t)(uintptr_t)c, sc ? sc->id : -1, 0, 0, 0, NULL);
	if (!sc) { sviol("ipcs:created-without-accept", c, "created %p", (void *)c); return; }
	if (sc->lc != LC_ACCEPTED) sviol("ipcs:created-out-of-order", c, "state %d", sc->lc);
	if (qb_ipcs_context_get(c) != sc) sviol("ipcs:context-lost", c, "created");
	sc->lc = LC_CREATED;
	if (cfg.lifecycle_random && vp_chance(&srng, 1, 10)) { sc->created_disconnected = 1; bed_log(L_SRV_NOTE, (uint64_t)(uintptr_t)c, 0, 0, 0, 0, "disconnect-in-created"); qb_ipcs_disconnect(c);
		/* service-wide control operations while this connection is half way out (still listed, transport gone) */
		if (!svc_destroyed && vp_chance(&srng, 1, 2)) { static const enum qb_ipcs_rate_limit RL[] = { QB_IPCS_RATE_FAST, QB_IPCS_RATE_SLOW, QB_IPCS_RATE_OFF, QB_IPCS_RATE_OFF_2, QB_IPCS_RATE_NORMAL };
			bed_log(L_SRV_NOTE, (uint64_t)(uintptr_t)c, 0, 0, 0, 0, "rate-limit-after-disconnect-in-created"); qb_ipcs_request_rate_limit(svc, RL[vp_u(&srng, 5)]); qb_ipcs_request_rate_limit(svc, QB_IPCS_RATE_NORMAL); }
		return; }
	if (cfg.lifecycle_random) random_lifecycle_action(sc, "created");
}
static int32_t cb_msg(qb_ipcs_connection_t *c, void *data, size_t size)
{
	struct sconn *sc = find_conn(c);
	struct tp_req *q = data;
	uint64_t ck = 0; int ckok = -1; uint32_t op = 0, seq = 0;
	if (cfg.read_all_bytes) { volatile unsigned char acc = 0; const unsigned char *p = data; for (size_t i = 0; i < size; i++) acc ^= p[i]; (void)acc; }
	if (size >= TP_REQ_MIN) { op = q->op; seq = q->seq; if ((size_t)q->plen + TP_REQ_MIN <= size) { ck = tp_cksum(q->payload, q->plen); ckok = ck == q->cksum; } }
	bed_log(L_MSG, (uint64_t)(uintptr_t)c, seq, (int64_t)size, ckok, size >= sizeof(struct qb_ipc_request_header) ? q->hdr.size : -1, NULL);
	if (!sc) { sviol("ipcs:msg-for-unknown-connection", c, "msg %p", (void *)c); return 0; }
	if (sc->refused) sviol("c05:message-from-refused-peer", c, "size %zu", size);
	if (sc->lc != LC_CREATED) sviol(sc->lc == LC_ACCEPTED ? "ipcs:msg-before-created" : "ipcs:msg-after-closed", c, "state %d", sc->lc);
	if (size < TP_REQ_MIN) return 0;
	if (sc->backoff_left > 0) { sc->backoff_left--; }
	switch (op) {
	case OP_ECHO: enqueue(sc, 0, seq, 0, 0, q->payload, q->plen + TP_REQ_MIN <= size ? q->plen : 0, q->arg1 ? q->arg1 : TP_RES_MIN + q->plen); break;
	case OP_NORESP: break;
	case OP_EVENTS: case OP_EVENTS_LATER: {
		uint32_t n = q->arg1, sz = q->arg2; if (sz < TP_RES_MIN) sz = TP_RES_MIN;
		for (uint32_t i = 0; i < n; i++) enqueue(sc, 1, sc->ev_seq++, 0, 0, NULL, 0, sz);
		enqueue(sc, 0, seq, n, sc->ev_seq, NULL, 0, TP_RES_MIN);
		break; }
	case OP_RATE:
		if (svc_destroyed) break;
		qb_ipcs_request_rate_limit(svc, (enum qb_ipcs_rate_limit)q->arg1);
		if (q->arg1 == QB_IPCS_RATE_OFF || q->arg1 == QB_IPCS_RATE_OFF_2) {
			/* flow control keeps every client from sending, also the command that would lift it: the
			 * server lifts it itself a little later */
			qb_loop_timer_handle th; qb_loop_timer_add(loop, QB_LOOP_HIGH, (q->arg2 ? (q->arg2 > 5000 ? 5000 : q->arg2) : vp_chance(&srng, 1, 4) ? 150 + vp_u(&srng, 250) : 2 + vp_u(&srng, 20)) * 1000000ULL, NULL, restore_rate, &th);   /* sometimes flow control stays on for a while: events queued meanwhile must still reach the client */
		}
		enqueue(sc, 0, seq, q->arg1, 0, NULL, 0, TP_RES_MIN); break;
	case OP_DISCONNECT_ME: bed_log(L_SRV_NOTE, (uint64_t)(uintptr_t)c, seq, 0, 0, 0, "disconnect-in-msg"); qb_ipcs_disconnect(c); return 0;
	case OP_REF: qb_ipcs_connection_ref(c); sc->app_refs++; sc->client_refs++; enqueue(sc, 0, seq, 0, 0, NULL, 0, TP_RES_MIN); break;
	case OP_UNREF: if (sc->client_refs > 0) { sc->client_refs--; sc->app_refs--; qb_ipcs_connection_unref(c); } enqueue(sc, 0, seq, 0, 0, NULL, 0, TP_RES_MIN); break;
	case OP_CLOSED_RETRY: sc->closed_retry_left = (int)q->arg1; enqueue(sc, 0, seq, 0, 0, NULL, 0, TP_RES_MIN); break;
	case OP_STALL: usleep((q->arg1 > 400 ? 400 : q->arg1) * 1000); break;
	case OP_BACKOFF: sc->backoff_left = (int)q->arg1; enqueue(sc, 0, seq, 0, 0, NULL, 0, TP_RES_MIN); break;
	case OP_ITERATE: {
		if (svc_destroyed) break;
		int n = 0; qb_ipcs_connection_t *it = qb_ipcs_connection_first_get(svc);
		while (it) { n++; qb_ipcs_connection_t *nx = qb_ipcs_connection_next_get(svc, it); qb_ipcs_connection_unref(it); it = nx; }
		enqueue(sc, 0, seq, (uint32_t)n, 0, NULL, 0, TP_RES_MIN); break; }
	case OP_DESTROY_SERVICE: if (!svc_destroyed) { svc_destroyed = 1; bed_log(L_SRV_NOTE, 0, 0, 0, 0, 0, "destroy-service-in-msg"); qb_ipcs_destroy(svc); } return 0;
	default: break;
	}
	if (sc->lc == LC_CREATED && !sc->dead) flush_outbox(sc);
	if (cfg.lifecycle_random && !sc->dead && sc->lc == LC_CREATED) random_lifecycle_action(sc, "msg");
	return (sc->backoff_left > 0) ? -1 : 0;
}
static int32_t cb_closed(qb_ipcs_connection_t *c)
{
	struct sconn *sc = find_conn(c);
	bed_log(L_CLOSED, (uint64_t)(uintptr_t)c, sc ? sc->id : -1, sc ? sc->closed_retry_left : 0, 0, 0, NULL);
	if (!sc) { sviol("ipcs:closed-for-unknown-connection", c, "closed %p", (void *)c); return 0; }
	if (sc->lc == LC_ACCEPTED) sviol("ipcs:closed-without-created", c, "closed but never created");
	else if (sc->lc == LC_CLOSED) sviol("ipcs:closed-again-after-returning-0", c, "closed twice");
	else if (sc->lc == LC_DESTROYED) sviol("ipcs:closed-after-destroyed", c, "closed after destroyed");
	sc->closed_calls++;
	while (sc->out_head) { struct outmsg *m = sc->out_head; sc->out_head = m->next; free(m); } sc->out_tail = NULL;
	if (cfg.lifecycle_random && vp_chance(&srng, 1, 4)) random_lifecycle_action(sc, "closed");
	if (sc->closed_retry_left > 0) { sc->closed_retry_left--; sc->lc = LC_CLOSING; return 1; }
	sc->lc = LC_CLOSED;
	return 0;
}
static void cb_destroyed(qb_ipcs_connection_t *c)
{
	struct sconn *sc = find_conn(c);
	bed_log(L_DESTROYED, (uint64_t)(uintptr_t)c, sc ? sc->id : -1, sc ? sc->app_refs : 0, sc ? sc->lc : 0, 0, NULL);
	if (!sc) { sviol("ipcs:destroyed-twice-or-unknown", c, "destroyed %p", (void *)c); return; }
	if (sc->app_refs > 0) sviol("ipcs:destroyed-while-application-holds-reference", c, "app refs %d", sc->app_refs);
	if (sc->lc == LC_CREATED && !sc->created_disconnected) sviol("ipcs:destroyed-without-closed", c, "created but closed never ran");
	if (sc->lc == LC_CLOSING) sviol("ipcs:destroyed-while-closed-retry-pending", c, "closed returned non-zero last");
	sc->lc = LC_DESTROYED; sc->dead = 1;
	while (sc->out_head) { struct outmsg *m = sc->out_head; sc->out_head = m->next; free(m); } sc->out_tail = NULL;
	/* the application context is released here: any later use of the connection by the library that
	 * hands it back to us is a use after free */
	sc->magic = 0xDEAD;
}

/* ---- random lifecycle actions (C04) ----------------------------------------------- */
static struct sconn *held[64]; static int nheld; static long n_event_on_closed;
static void release_held(void *data)
{
	(void)data;
	if (nheld > 0) { int i = (int)vp_u(&srng, (uint32_t)nheld); struct sconn *sc = held[i]; held[i] = held[--nheld];
		/* the application still holds this connection; if its closed callback has run already an event for it has nowhere
		 * to go and must be refused (its descriptor number may belong to a newer client by now) */
		if (sc->lc >= LC_CLOSED && !sc->dead && cfg.type == QB_IPC_SHM) {   /* shm: the wake-up byte would go to the setup socket, which is closed by now; the socket transport keeps its own event socket until the connection is destroyed */
			struct { struct qb_ipc_response_header h; char pad[16]; } ev; memset(&ev, 0, sizeof ev); ev.h.id = 77; ev.h.size = sizeof ev;
			ssize_t er = qb_ipcs_event_send(sc->c, &ev, sizeof ev); n_event_on_closed++;
			if (er >= 0) sviol("ipcs:event-accepted-on-a-closed-connection", sc->c, "rc %zd", er);
		}
		sc->app_refs--; bed_log(L_SRV_NOTE, (uint64_t)(uintptr_t)sc->c, sc->id, 0, 0, 0, "app-unref-later"); qb_ipcs_connection_unref(sc->c); }
}
static void random_lifecycle_action(struct sconn *sc, const char *where)
{
	qb_loop_timer_handle th;
	switch (vp_u(&srng, 12)) {
	case 0: if (nheld < 64) { qb_ipcs_connection_ref(sc->c); sc->app_refs++; held[nheld++] = sc; bed_log(L_SRV_NOTE, (uint64_t)(uintptr_t)sc->c, sc->id, 0, 0, 0, "app-ref");
			qb_loop_timer_add(loop, QB_LOOP_LOW, (1 + vp_u(&srng, 30)) * 1000000ULL, NULL, release_held, &th); } break;
	case 1: qb_ipcs_connection_ref(sc->c); qb_ipcs_connection_unref(sc->c); break;
	case 2: if (strcmp(where, "closed") != 0 && sc->lc == LC_CREATED) { if (strcmp(where, "created") == 0) sc->created_disconnected = 1; bed_log(L_SRV_NOTE, (uint64_t)(uintptr_t)sc->c, sc->id, 0, 0, 0, "disconnect-in-callback"); qb_ipcs_disconnect(sc->c); } break;
	case 3: if (svc_destroyed) break; { qb_ipcs_connection_t *it = qb_ipcs_connection_first_get(svc); while (it) { qb_ipcs_connection_t *nx = qb_ipcs_connection_next_get(svc, it); qb_ipcs_connection_unref(it); it = nx; } break; }
	case 4: if (svc_destroyed) break; qb_ipcs_request_rate_limit(svc, (enum qb_ipcs_rate_limit)vp_u(&srng, 5)); qb_ipcs_request_rate_limit(svc, QB_IPCS_RATE_NORMAL); break;
	case 5: if (sc->lc == LC_CREATED) { enqueue(sc, 1, sc->ev_seq++, 0, 0, NULL, 0, TP_RES_MIN + vp_u(&srng, 200)); flush_outbox(sc); } break;
	case 6: sc->closed_retry_left = (int)vp_u(&srng, 3); break;
	case 7: { struct qb_ipcs_connection_stats st; qb_ipcs_connection_stats_get(sc->c, &st, 0); break; }
	default: break;
	}
}

/* ---- shutdown ------------------------------------------------------------------- */
static int count_fds(void) { int n = 0; DIR *d = opendir("/proc/self/fd"); struct dirent *e; while (d && (e = readdir(d))) if (e->d_name[0] != '.') n++; if (d) closedir(d); return n - 1; }
static int count_shm(void)
{
	char pre[64]; snprintf(pre, sizeof pre, "qb-%d-", (int)getpid());
	int n = 0; DIR *d = opendir("/dev/shm"); struct dirent *e; while (d && (e = readdir(d))) if (strncmp(e->d_name, pre, strlen(pre)) == 0) n++; if (d) closedir(d); return n;
}
/* after qb_ipcs_destroy: keep the loop turning until every connection is gone (closed-callback retries and deferred
 * disconnects are jobs of the loop), bounded by a number of turns, not by the clock */
static int final_turns;
static void final_stop(void *data)
{
	(void)data; int alive = 0;
	for (struct sconn *s = conns; s; s = s->next) if (!s->dead) alive = 1;
	if (!alive || ++final_turns > 3000) { qb_loop_stop(loop); return; }
	if (final_turns > 50) usleep(200);
	qb_loop_job_add(loop, QB_LOOP_LOW, NULL, final_stop);
}
static int32_t on_term(int32_t sig, void *data)
{
	(void)sig; (void)data;
	struct qb_ipcs_stats st; memset(&st, 0, sizeof st); if (!svc_destroyed) qb_ipcs_stats_get(svc, &st, 0);
	bed_log(L_SRV_FINAL, 0, st.active_connections, count_fds(), count_shm(), nheld, "before-destroy");
	while (nheld > 0) release_held(NULL);
	/* references taken on behalf of clients (OP_REF) that they never gave back */
	for (struct sconn *s2 = conns; s2; s2 = s2->next) while (!s2->dead && s2->client_refs > 0) { s2->client_refs--; s2->app_refs--; qb_ipcs_connection_unref(s2->c); }
	if (!svc_destroyed) { svc_destroyed = 1; qb_ipcs_destroy(svc); }
	qb_loop_job_add(loop, QB_LOOP_LOW, NULL, final_stop);
	return 0;
}
static int32_t on_usr1(int32_t sig, void *data)
{
	(void)sig; (void)data;
	struct qb_ipcs_stats st; memset(&st, 0, sizeof st); if (!svc_destroyed) qb_ipcs_stats_get(svc, &st, 0);
	bed_log(L_SRV_FINAL, 0, st.active_connections, count_fds(), count_shm(), nheld, "probe");
	return 0;
}

static int32_t my_job_add(enum qb_loop_priority p, void *data, qb_loop_job_dispatch_fn fn) { return qb_loop_job_add(loop, p, data, fn); }
static int32_t my_dispatch_add(enum qb_loop_priority p, int32_t fd, int32_t ev, void *data, qb_ipcs_dispatch_fn_t fn) { return qb_loop_poll_add(loop, p, fd, ev, data, fn); }
static int32_t my_dispatch_mod(enum qb_loop_priority p, int32_t fd, int32_t ev, void *data, qb_ipcs_dispatch_fn_t fn) { return qb_loop_poll_mod(loop, p, fd, ev, data, fn); }
static int32_t my_dispatch_del(int32_t fd) { return qb_loop_poll_del(loop, fd); }

void bed_server_main(const struct srv_cfg *c, const char *dir)
{
	cfg = *c; snprintf(bed_dir, sizeof bed_dir, "%s", dir);
	bed_log_open(dir, "server");
	vp_seed(&srng, cfg.seed, 0x5e7);
	signal(SIGPIPE, SIG_IGN);
	loop = qb_loop_create();
	qb_loop_signal_handle h1, h2;
	qb_loop_signal_add(loop, QB_LOOP_HIGH, SIGTERM, NULL, on_term, &h1);
	qb_loop_signal_add(loop, QB_LOOP_HIGH, SIGUSR1, NULL, on_usr1, &h2);
	struct qb_ipcs_service_handlers sh = { cb_accept, cb_created, cb_msg, cb_closed, cb_destroyed };
	svc = qb_ipcs_create(cfg.name, 7, cfg.type, &sh);
	struct qb_ipcs_poll_handlers ph = { my_job_add, my_dispatch_add, my_dispatch_mod, my_dispatch_del };
	qb_ipcs_poll_handlers_set(svc, &ph);
	if (cfg.enforce_buf) qb_ipcs_enforce_buffer_size(svc, cfg.enforce_buf);
	int rc = qb_ipcs_run(svc);
	bed_log(L_SRV_READY, 0, rc, count_fds(), count_shm(), 0, NULL);
	if (rc == 0) qb_loop_run(loop);
	bed_log(L_SRV_FINAL, 0, 0, count_fds(), count_shm(), 0, "after-loop");
	/* every accepted connection must be destroyed by now */
	for (struct sconn *s = conns; s; s = s->next) if (!s->dead) { bed_log(L_SRV_VIOLATION, (uint64_t)(uintptr_t)s->c, s->id, s->lc, 0, 0, "ipcs:connection-never-destroyed"); }
	_exit(0);
}
