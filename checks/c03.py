"""C03: IPC - death of the peer at any point is detected and fully cleaned up."""
from vplib import build, simple

PROP = "C03"


def ipcbed():
    return build.harness("ipcbed", "asan", ["ipcbed_main.c", "ipcbed_server.c", "vp.c", "vpguard.c"],
                         wraps=["random", "srand", "mmap", "munmap"])


# client death: case k -> scenario k % 4 (transport x queues empty/non-empty), syscall stop ((k / 4) * stride) % S + 1
STAGE_LIST = [
    simple.Stage("client-death", ipcbed, ["--mode", "c03-client", "--stride", "7"], quick=120, thorough=800, timeout=900, chunk=8),
    simple.Stage("handshake-prefix", ipcbed, ["--mode", "c03-prefix"], quick=200, thorough=200, timeout=900, chunk=10),
    simple.Stage("server-death-at-file-removals", ipcbed, ["--mode", "c03-server-fs"], quick=480, thorough=480, timeout=1800, chunk=8),
    simple.Stage("server-death", ipcbed, ["--mode", "c03-server", "--stride", "7"], quick=352, thorough=2560, timeout=1800, chunk=6),
]
THOROUGH_ARGS = {"client-death": ["--mode", "c03-client", "--stride", "1"], "server-death": ["--mode", "c03-server", "--stride", "1"]}
STAGES = {s.name: s.builder for s in STAGE_LIST}
RULE = ("crash-point enumeration with a ptrace tracer. client death: 4 scenarios (both transports x queues empty / "
        "non-empty: connect, requests with responses, events, queued one-way requests, disconnect); the victim is "
        "killed at its n-th syscall stop (entry and exit stops are distinct points) for n = every 7th (quick) / every "
        "(thorough) stop of the ~190 per scenario; afterwards the server's callback automaton, qb_ipcs_stats, "
        "/proc/<pid>/fd, /dev/shm and a control client are audited. handshake-prefix: every prefix 0..24 of a valid "
        "handshake x {exit, stall, byte-by-byte, exit while the server sits in a slow accept callback} x both transports (exhaustive). server death: the server runs under "
        "the tracer and is killed at the n-th stop after the first connection was created (8 scenarios: transport x "
        "events x the server itself disconnecting the survivor at the end) and, exhaustively in both tiers, at every "
        "entry and exit stop of unlink/unlinkat/rmdir/ftruncate (addressed by occurrence number, stable between runs); "
        "the surviving client logs "
        "latency and result of recv(300), sendv_recv(500), sendv_recv(-1), event_recv(-1), later send/recv and "
        "disconnect; non-empty files of the dead server under /dev/shm are listed after qb_ipcc_disconnect. distinct by "
        "(scenario, stop number, syscall number at the stop)")


def build_all():
    ipcbed()


def run(tier, seed, scale=1.0):
    stages = STAGE_LIST
    if tier == "thorough":
        stages = [simple.Stage(s.name, s.builder, THOROUGH_ARGS.get(s.name, s.args), s.quick, s.thorough, timeout=s.timeout, chunk=s.chunk)
                  for s in STAGE_LIST]
    return simple.run_stages(PROP, tier, seed, scale, stages, RULE, level="fault_enumeration",
                             assumptions=["crash points are syscall boundaries of the victim (death between two instructions "
                                          "that are not separated by a system call leaves the same externally visible "
                                          "state, except for partly written shared memory, which C01 covers)",
                                          "deadlines: finite timeout + 1 s allowance; infinite waits 2 x QB_IPC_MAX_WAIT_MS + "
                                          "1 s; 'immediately' = 1 s; a missed deadline is re-run once before it counts",
                                          "for a dead server the client must leave no non-empty file (empty ones are tolerated "
                                          "as in tests/resources.test)"])


def replay(rep):
    return simple.replay(rep, STAGE_LIST)
