"""C02: IPC requests, responses and events arrive exactly once, in order, intact."""
from vplib import build, simple

PROP = "C02"


def ipcbed():
    return build.harness("ipcbed", "asan", ["ipcbed_main.c", "ipcbed_server.c", "vp.c", "vpguard.c"], wraps=["random", "srand", "mmap", "munmap"])


STAGE_LIST = [simple.Stage("c02", ipcbed, ["--mode", "c02"], quick=96, thorough=2400, timeout=1800, chunk=2)]
STAGES = {s.name: s.builder for s in STAGE_LIST}
RULE = ("one case = one server process (shared-memory or socket transport, negotiated maximum 256 B..1 MiB, optional "
        "enforced buffer size) and 1-3 client processes; every message carries (client, sequence, length, PRNG payload, "
        "checksum). Clients send 40-200 operations each: echo requests, one-way requests, event bursts (1-400 events "
        "up to the maximum size, client deliberately slow), rate-limit changes OFF/OFF_2/NORMAL/FAST/SLOW mid-stream "
        "with fc_enable_max 1/2, msg_process back-off, sends above the maximum, send/sendv, recv/event_recv, poll "
        "probes. All processes log call and return of every API call and every callback; the merged history is checked "
        "offline: accepted sends == msg_process deliveries (order, length, bytes), refused sends never delivered, "
        "responses and events in order and intact, all accepted events received at quiescence, fd readable while "
        "events are known to be queued. non-trivial = a send was refused and retried or the event channel pushed back")


def build_all():
    ipcbed()


def run(tier, seed, scale=1.0):
    return simple.run_stages(PROP, tier, seed, scale, STAGE_LIST, RULE,
                             assumptions=["real processes, OS scheduling; relative speeds varied by seeded delays only",
                                          "server: asan build; a send that timed out stays open until the end of the history",
                                          "abstract-namespace sockets (filesystem socket mode not exercised)"])


def replay(rep):
    return simple.replay(rep, STAGE_LIST)
