"""C13: log line formatting is bounded by the line limit and follows the format spec."""
from vplib import build, simple

PROP = "C13"


def fmt():
    return build.harness("fmtmodel", "asan", ["fmtmodel.c", "vp.c"], wraps=["random", "srand"])


STAGE_LIST = [
    simple.Stage("direct", fmt, ["--mode", "direct"], quick=20000, thorough=2000000),
    simple.Stage("calls", fmt, ["--mode", "calls"], quick=4000, thorough=200000),
]
STAGES = {s.name: s.builder for s in STAGE_LIST}
RULE = ("direct: one case = (target format from a grammar of literal text and %[-][width] n f l p t T b g N P H, plus "
        "hostile endings/unknown directives/huge widths/formats over 255 and 512 bytes; line limit from 1..4096; "
        "ellipsis on/off; message of length 0, 1, limit-2..limit+2, beyond, with trailing newline) formatted by "
        "qb_log_target_format into a heap block of exactly the limit and compared with a reference formatter written "
        "from qblog.h. calls: real qb_log_from_external_source calls (empty, over-long, with the extended marker) to "
        "a custom target and a file target, incl. limits the control API accepts outside 1..4096, then a liveness "
        "message. distinct by (limit, ellipsis, format prefix)")


def build_all():
    fmt()


def run(tier, seed, scale=1.0):
    return simple.run_stages(PROP, tier, seed, scale, STAGE_LIST, RULE,
                             assumptions=["TZ=UTC; '-' means right-aligned as pinned by tests/check_log.c; %f is the base "
                                          "name; unknown directives, width 0, trailing '%' and limits below 4 are judged "
                                          "for memory safety and termination only; a trailing newline may be stripped",
                                          "asan + UBSan-bounds build from /repo working tree"])


def replay(rep):
    return simple.replay(rep, STAGE_LIST)
