"""C12: log routing - a message reaches exactly the enabled targets its filters select."""
from vplib import build, simple

PROP = "C12"


def route():
    return build.harness("logroute", "asan", ["logroute.c", "vp.c"], wraps=["random", "srand"])


STAGE_LIST = [simple.Stage("route", route, quick=1500, thorough=24000, chunk=100, timeout=1200)]
STAGES = {s.name: s.builder for s in STAGE_LIST}
RULE = ("one case = a pool of 30-200 synthetic call sites (files x functions x lines x priorities x formats, some line "
        "numbers shared) and a history of 30-120 filter add/remove/clear, tag set/clear, target open/close/enable/"
        "disable operations and log calls through qb_log_from_external_source to up to 4 custom targets. Oracle 1: "
        "declarative filter model (judged while no removal overlapped another stored filter). Oracle 2: the history run "
        "with all call sites created up front vs. at first use must give identical deliveries and tags. Failing "
        "histories are shrunk; keys carry the features of the shrunk history. distinct by (pool size, features, ops)")


def build_all():
    route()


def run(tier, seed, scale=1.0):
    return simple.run_stages(PROP, tier, seed, scale, STAGE_LIST, RULE,
                             assumptions=["call sites are identified by (file, line, priority, format) as in log_dcs.c; "
                                          "each generated (file, line) has one function",
                                          "comma alternatives accepted for file and function filters (tests/check_log.c)",
                                          "the logging system is re-initialised between runs of one process (C16 covers "
                                          "re-init safety)"])


def replay(rep):
    return simple.replay(rep, STAGE_LIST)
