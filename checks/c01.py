"""C01: ring buffer - one writer + one reader get FIFO, exactly-once, untorn chunks."""
from vplib import build, simple

PROP = "C01"
SEMWRAPS = []


def sched():
    # ring objects carry TSan instrumentation as yield points; vpsched.c is their "runtime"
    return build.harness("rbspsc", "sched", ["rbspsc.c", "vp.c"], extra_cflags=["-DENGINE_SCHED", "-DVPS_TSAN_ABI"],
                         wraps=["random", "srand"], plain_sources=["vpsched.c"], outname="rbspsc_sched")


def tsan():
    return build.harness("rbspsc", "tsan", ["rbspsc.c", "vp.c"], extra_cflags=["-DENGINE_TSAN", "-DVPS_REAL_TSAN"],
                         wraps=["random", "srand"], plain_sources=["vpsched.c"], outname="rbspsc_tsan")


def free():
    return build.harness("rbspsc", "plain", ["rbspsc.c", "vp.c"], extra_cflags=["-DENGINE_FREE"],
                         wraps=["random", "srand"], outname="rbspsc_free")


STAGE_LIST = [
    simple.Stage("sched", sched, quick=6000, thorough=400000, timeout=600),
    simple.Stage("tsan", tsan, quick=400, thorough=20000, tsan=True, timeout=900),
    simple.Stage("free-threads", free, ["--procs", "0", "--chunks", "20000"], quick=64, thorough=6000, timeout=900),
    simple.Stage("free-processes", free, ["--procs", "1", "--chunks", "20000"], quick=48, thorough=4000, timeout=900),
]
STAGES = {s.name: s.builder for s in STAGE_LIST}
RULE = ("one run = one ring (64..12000 bytes, with/without the notification semaphore, write or alloc+commit, read or "
        "peek+reclaim, four chunk-length profiles incl. lengths not divisible by 4, ring-size chunks and lengths that "
        "force refusal and wrap) with a writer and a reader; chunk i has length L(seed,i) and bytes F(seed,i), the "
        "reader recomputes both for every chunk it gets (order, exactly-once, untorn) and the counts must balance. "
        "sched: the ring code's ThreadSanitizer instrumentation is used as yield points of a seeded serialising "
        "scheduler (uniform switch probability 1/2..1/32 or 1-3 PCT change points). tsan: real ThreadSanitizer with "
        "read_pt/write_pt modelled as acquire/release, threads serialised by an uninstrumented scheduler. free: "
        "free-running threads / creator+opener processes with seeded spin delays. non-trivial (sched) = schedule with "
        ">= 1 switch and >= 1 refusal or empty read, distinct by schedule hash")


def build_all():
    sched(); tsan(); free()


def run(tier, seed, scale=1.0):
    return simple.run_stages(PROP, tier, seed, scale, STAGE_LIST, RULE,
                             assumptions=["x86-64 (TSO) hardware only; volatile read_pt/write_pt are modelled as "
                                          "acquire/release for ThreadSanitizer, which is the convention the code relies on",
                                          "the TSan engine runs without the notification semaphore (the semaphore would "
                                          "order the payload by itself) and shares one handle between the threads",
                                          "interleavings finer than instrumented accesses do not exist for shared words"])


def replay(rep):
    return simple.replay(rep, STAGE_LIST)
