"""C08: event loop runs every job, timer and fd callback exactly as registered."""
from vplib import build, simple

PROP = "C08"
WRAPS = ["random", "srand", "clock_gettime", "clock_getres", "epoll_wait", "usleep", "malloc", "calloc", "realloc"]


def loopmodel():
    return build.harness("loopmodel", "asan", ["loopmodel.c", "vp.c"], wraps=WRAPS)


STAGE_LIST = [simple.Stage("ledger", loopmodel, ["--mode", "ledger"], quick=20000, thorough=300000)]
STAGES = {s.name: s.builder for s in STAGE_LIST}
RULE = ('one case = one loop driven by a random program of add/modify/delete operations on jobs, timers, descriptors (eventfd) and signals issued from outside the loop and from inside any callback (self-delete, deleting items of other priorities that are already expired/ready, re-adding, descriptor numbers closed and reused, qb_loop_stop from callbacks); a ledger with one heap block of user data per registration (freed as soon as no callback may follow) checks exactly-once, nothing after a successful delete, FIFO of jobs per priority, stale timer handles, signal counts; time is virtual and epoll_wait is wrapped (one call = one iteration). non-trivial = deleted a probably queued item, used a stale handle or reused an fd number; distinct by (registrations, features, callback counts, iterations)')
ASSUME = ['virtual clock (clock_gettime/clock_getres wrapped), epoll_wait wrapped to timeout 0 + virtual sleep, usleep wrapped', 'signals are raise()d synchronously from the loop thread; stale handles are exercised for timers (signal handles are raw pointers, descriptor handles are fd numbers)', 'asan build from /repo working tree']


def build_all():
    loopmodel()


def run(tier, seed, scale=1.0):
    return simple.run_stages(PROP, tier, seed, scale, STAGE_LIST, RULE, assumptions=ASSUME)


def replay(rep):
    return simple.replay(rep, STAGE_LIST)
