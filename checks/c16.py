"""C16: threaded logging delivers every queued message once, in order, before fini."""
from vplib import build, simple

PROP = "C16"


def asan():
    return build.harness("logthread", "asan", ["logthread.c", "vp.c"], wraps=["random", "srand"])


def tsan():
    return build.harness("logthread", "tsan", ["logthread.c", "vp.c", "tsanvol_plain.c"], wraps=["random", "srand"])


STAGE_LIST = [
    simple.Stage("asan", asan, quick=160, thorough=6000, timeout=300, chunk=5),
    simple.Stage("tsan", tsan, quick=96, thorough=4000, timeout=600, tsan=True, chunk=3),
    simple.Stage("fini-race", tsan, ["--mode", "finirace"], quick=640, thorough=6000, timeout=600, tsan=True, chunk=5),
]
STAGES = {s.name: s.builder for s in STAGE_LIST}
RULE = ("one case = 1-2 init..fini rounds (the second is a re-initialisation): 1-3 custom targets, some threaded, the "
        "three orders of set-threaded / thread-start / control ops; one producer logs 5-3000 sequence-numbered "
        "messages (small or 1-4 KiB, slow logger to exceed the 512000 byte backlog), benign control ops while the "
        "thread is busy, in 20% of the rounds a hazard (disable/enable, close, un-thread) where only order, "
        "duplicates, termination and sanitizer reports are judged; after qb_log_fini: order, exactly-once, "
        "missing == sum of 'N messages lost' reports, nothing delivered after fini returned, late control calls "
        "refused. stage fini-race: 120 init..fini rounds per case of 1-4 messages with 6 competing busy threads in the "
        "process, so that qb_log_fini arrives while the logging thread is being woken for the last record. a third of "
        "the other cases run with the same competing load. distinct by hash of the round parameters")


def build_all():
    asan(); tsan()


def run(tier, seed, scale=1.0):
    return simple.run_stages(PROP, tier, seed, scale, STAGE_LIST, RULE,
                             assumptions=["one producer thread (qblog.h promises thread safety only with threaded "
                                          "targets; overlapping calls are discarded by the re-entrancy flag)",
                                          "producer/worker interleavings are OS-scheduled with seeded delays",
                                          "ASan and TSan (gcc 12) builds from /repo working tree"])


def replay(rep):
    return simple.replay(rep, STAGE_LIST)
