"""C20: handle database - stale handles rejected, destructor exactly once."""
from vplib import build, simple

PROP = "C20"


def hdb():
    return build.harness("hdbmodel", "asan", ["hdbmodel.c", "vp.c"], wraps=["random", "srand", "malloc", "calloc"])


STAGE_LIST = [simple.Stage("model", hdb, quick=4000, thorough=400000)]
STAGES = {s.name: s.builder for s in STAGE_LIST}
RULE = ("one case = one handle database driven by 60-300 random create/get/put/destroy/refcount/iterate ops with "
        "creates whose object allocation fails (failpoint on malloc/calloc: -ENOMEM, no effect), handle values drawn from live, released (slot possibly reused), pending-removal, forged (wrong check, huge "
        "slot, negative slot) and no-check handles, compared op by op with a refcount model and a destructor ledger; "
        "non-trivial = used a stale handle, saw slot reuse or a destroyed-but-referenced object; distinct by hash of "
        "the op trace prefix and these three flags")


def build_all():
    hdb()


def run(tier, seed, scale=1.0):
    return simple.run_stages(PROP, tier, seed, scale, STAGE_LIST, RULE,
                             assumptions=["asan build from /repo working tree; random() inside libqb replaced by the "
                                          "seeded PRNG (check words are deterministic per case)",
                                          "more puts than gets are not generated (API misuse outside the property)"])


def replay(rep):
    return simple.replay(rep, STAGE_LIST)
