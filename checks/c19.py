"""C19: growable array - stable, disjoint, zero-initialised elements; concurrent index/grow."""
from vplib import build, simple

PROP = "C19"


def seq():
    return build.harness("arraymodel", "asan", ["arraymodel.c", "vp.c"], wraps=["random", "srand", "malloc", "calloc", "realloc"])


def mt_asan():
    return seq()


def mt_tsan():
    return build.harness("arraymodel", "tsan", ["arraymodel.c", "vp.c", "tsanvol_plain.c"], wraps=["random", "srand", "malloc", "calloc", "realloc"])


STAGE_LIST = [
    simple.Stage("seq", seq, ["--mode", "seq"], quick=1500, thorough=150000),
    simple.Stage("mt-asan", mt_asan, ["--mode", "mt"], quick=160, thorough=8000),
    simple.Stage("mt-tsan", mt_tsan, ["--mode", "mt"], quick=96, thorough=4000, tsan=True, timeout=900),
]
STAGES = {s.name: s.builder for s in STAGE_LIST}
RULE = ("seq: one case = one array (element size, initial size, auto-grow from the boundary lists or random), 100-400 "
        "index/grow ops with indices aimed at -1, 0, bin edges, size-1, size, size+1, 65535, 65536, INT_MAX; address "
        "table, zero-at-first-sight, pattern persistence and an interval sweep for disjointness. mt: 2-8 threads "
        "released by a barrier index/grow one shared array, address table shared by CAS, each thread writes only "
        "elements it owns; ASan and TSan builds. non-trivial = saw growth, auto-growth or a range error (seq) / any "
        "mt case; distinct by (element size, auto-grow, initial size, flags, #indices)")


def build_all():
    seq(); mt_tsan()


def run(tier, seed, scale=1.0):
    return simple.run_stages(PROP, tier, seed, scale, STAGE_LIST, RULE,
                             assumptions=["ASan and TSan (gcc 12) builds from /repo working tree",
                                          "thread interleavings are OS-scheduled (16 cores) with seeded yields, "
                                          "not enumerated"])


def replay(rep):
    return simple.replay(rep, STAGE_LIST)
