"""C18: map iterators stay valid while entries are removed or added under them."""
import re
from vplib import build, simple

PROP = "C18"


def mapmodel():
    return build.harness("mapmodel", "asan", ["mapmodel.c", "vp.c"], wraps=["random", "srand"])


def key_fn(v):
    """sanitizer reports get the history class (from the harness' step description) appended,
    like the behavioural keys: P = put while an iterator was open, R = rm of a parked entry,
    D = repeated rm of a key removed while iterators were open"""
    k = v["key"]
    if k.startswith(("asan:", "ubsan:", "abort:", "hang")):
        m = re.search(r"hist=([A-Z]*);", v.get("desc", ""))
        k += ":hist=" + (m.group(1) if m else "?")
    return k


def st(name, impl, forbid, q, t):
    return simple.Stage(name, mapmodel, ["--impl", impl, "--iters", "1", "--forbid", str(forbid)], quick=q, thorough=t,
                        key_suffix=":" + impl, key_fn=key_fn)


# --forbid bits: 1 = no put while an iterator is open, 2 = no rm of an entry an iterator is parked on,
# 4 = no second rm of a key already removed while iterators were open.  The restricted stages keep the
# parts of the property that hold on this tree under watch even though known findings (which all need
# one of these ingredients, see known_findings.json) are reported from the unrestricted stages.
STAGE_LIST = [
    st("hash", "hash", 0, 1500, 100000),
    st("skip", "skip", 0, 1200, 80000),
    st("skip-no-rm-of-parked", "skip", 2, 1200, 80000),
    st("trie", "trie", 0, 1200, 80000),
    st("trie-documented-use", "trie", 5, 1200, 80000),
]
STAGES = {s.name: s.builder for s in STAGE_LIST}
RULE = ("one case = one map (hashtable / skiplist / trie) over an adversarial key pool (all {a,b}-strings up to 5, "
        "prefix chains, bytes >= 0x80 / 0x7f / 0x01, 250-310 byte keys with long shared prefixes, single chars, random "
        "words), 80-300 ops: put (new / replace, either of two key pointers), rm (present and absent), get, count, "
        "complete / prefix iteration, foreach abandoned by the callback, notifier add/delete (global, per key, "
        "recursive prefix, FREE), destroy; every result and the multiset of notifications of every op are compared "
        "with a dictionary + notifier-registry model. non-trivial = case contains rm of an absent key, a prefix "
        "iteration, an abandoned foreach or a notifier; distinct by op-trace hash")


def build_all():
    mapmodel()


def run(tier, seed, scale=1.0):
    return simple.run_stages(PROP, tier, seed, scale, STAGE_LIST, RULE,
                             assumptions=["asan build from /repo working tree; skiplist levels from the seeded PRNG",
                                          "INSERTED notifications are judged on the trie only (qbmap.h: only valid on "
                                          "tries); values are never NULL and keys never empty (API preconditions)",
                                          "trie iteration order is accepted when ascending in signed-char byte order "
                                          "(reported as diagnostic)"])


def replay(rep):
    return simple.replay(rep, STAGE_LIST)
