"""C14: blackbox encode/decode equals printf; encode/decode never write out of bounds.

Variadic calls cannot be built at run time, so the generator emits C source:
batches of literal calls, compiled against the asan flavour and run.
"""
import os, random
from concurrent.futures import ThreadPoolExecutor
from vplib import build, runner, report, simple

PROP = "C14"
BATCH = 1500

INTS = ["0", "1", "-1", "7", "42", "INT_MAX", "INT_MIN", "65535", "-32768", "1000000", "0x7fffffff", "-2147483647"]
LONGS = ["0", "1", "-1", "LONG_MAX", "LONG_MIN", "4294967296", "-4294967297", "123456789012", "LLONG_MAX", "LLONG_MIN"]
DOUBLES = ["0.0", "-0.0", "1.5", "-2.25", "3.141592653589793", "1e300", "-1e-300", "4.9e-324", "INFINITY",
           "-INFINITY", "NAN", "123456.789", "0.1", "1e10", "99999.5"]
STRS = ["", "x", "ab", "hello world", "100%", "%s%d%n%%", "a%", "trailing space ", "Z" * 40, "q" * 300,
        "m" * 700, "with\ttab", "\xc3\xa9t\xc3\xa9"]
LIT_CHARS = "abcdefghijklmnopqrstuvwxyzABCDEFGHIJKLMNOPQRSTUVWXYZ0123456789 .,:;-_=+()[]{}<>/!?#&*@~|^'"


def cstr(s):
    out = []
    for ch in s.encode("latin-1") if isinstance(s, str) else s:
        c = chr(ch)
        if c in '"\\':
            out.append("\\" + c)
        elif 32 <= ch < 127 and c != "?":
            out.append(c)
        else:
            out.append("\\%03o" % ch)
    return '"' + "".join(out) + '"'


def gen_directive(rng, allow_long_spec):
    """returns (spec, args, feats)"""
    feats = set()
    conv = rng.choice("dddiouxXcsssspeEfFgGaA%%")
    if conv == "%":
        return "%%", [], {"pct"}
    flags_allowed = {"d": "-+ 0'", "i": "-+ 0'", "u": "-0'", "o": "-#0", "x": "-#0", "X": "-#0", "c": "-", "s": "-",
                     "p": "-"}.get(conv, "-+ #0")
    flags = "".join(sorted(set(rng.choice(flags_allowed) for _ in range(rng.choice([0, 0, 1, 2, 3])))))
    if "0" in flags and "-" in flags:
        flags = flags.replace("0", "")
    if "+" in flags and " " in flags:
        flags = flags.replace(" ", "")
    args = []
    width = ""
    w = rng.random()
    if w < 0.35:
        width = str(rng.choice([1, 2, 5, 8, 12, 20, 40]))
    elif w < 0.45:
        width = "*"
        args.append("(int)%d" % rng.choice([0, 1, 6, 15, -8, 30]))
    prec = ""
    if conv in "diouxXeEfFgGaAs" and rng.random() < 0.4:
        if rng.random() < 0.25:
            prec = ".*"
            args.append("(int)%d" % rng.choice([0, 1, 3, 8, -1, 12]))
        else:
            prec = "." + rng.choice(["", "0", "1", "2", "3", "5", "10", "17"])
            if prec != "." and prec != ".0":
                feats.add("precdigits")
        if "0" in flags and conv in "diouxX":
            flags = flags.replace("0", "")   # '0' with precision is ignored by printf; keep it simple
    mod = ""
    if conv in "diouxX":
        mod = rng.choice(["", "", "", "l", "ll", "z", "t", "j"])
        signed = conv in "di"
        if mod == "":
            v = rng.choice(INTS + [str(rng.randint(-2**31, 2**31 - 1))])
            args.append(("(int)(%s)" if signed else "(unsigned int)(%s)") % v)
        else:
            ty = {"l": "long", "ll": "long long", "z": "size_t", "t": "ptrdiff_t", "j": "intmax_t"}[mod]
            v = rng.choice(LONGS + INTS + [str(rng.randint(-2**62, 2**62))])
            if not v[0].isalpha() and "x" not in v:
                v += "LL"
            args.append("(%s)(%s)" % (ty, v))
        feats.add("int")
    elif conv == "c":
        args.append("(int)%d" % rng.choice([65, 97, 122, 48, 32, 126, 200, 1]))
    elif conv == "s":
        s = rng.choice(STRS + [None])
        if s is None and prec:
            s = "abc"
        args.append("(char *)0" if s is None else cstr(s))
        feats.add("str")
    elif conv == "p":
        args.append(rng.choice(["(void *)0", "(void *)0x1234", "(void *)0x7fffdeadbeefULL", "(void *)1"]))
    else:
        # %lf, %le, ... are legal C (the l has no effect on a double); the decoder has to treat them like %f
        if rng.random() < 0.3:
            mod = "l"
            feats.add("l-on-double")
        args.append("(double)(%s)" % rng.choice(DOUBLES + [repr(rng.uniform(-1e6, 1e6))]))
    spec = "%" + flags + width + prec + mod + conv
    return spec, args, feats


def gen_literal(rng, long_ok):
    r = rng.random()
    if r < 0.3:
        n = 0
    elif r < 0.85 or not long_ok:
        n = rng.randint(1, 12)
    elif r < 0.95:
        n = rng.randint(60, 200)
    else:
        n = rng.randint(400, 650)
    return "".join(rng.choice(LIT_CHARS) for _ in range(n))


def gen_case(rng, cid):
    stress = rng.random() < 0.3
    ndir = rng.choice([1, 1, 2, 2, 3, 3, 4, 5, 6, 8, 12])
    parts, args = [], []
    feats_seq = []
    longspec = False
    for i in range(ndir):
        parts.append(gen_literal(rng, True))
        if rng.random() < 0.03:
            # a long (but legal: repeated '0' flag) specification; the decoder rebuilds it in a small buffer
            spec, a, f = gen_directive(rng, False)
            if spec[-1] in "diuxXoeEfFgG" and "-" not in spec and "." not in spec:
                spec = "%" + "0" * rng.choice([14, 19, 30]) + spec[1:]
                longspec = True
            parts.append(spec)
            args += a
            feats_seq.append(f)
            continue
        spec, a, f = gen_directive(rng, False)
        parts.append(spec)
        args += a
        feats_seq.append(f)
    parts.append(gen_literal(rng, True))
    fmt = "".join(parts)
    # classification of the history of directives (for violation keys)
    cls = set()
    seen_pct = seen_prec = False
    for f in feats_seq:
        if "pct" in f:
            seen_pct = True
            continue
        if seen_pct:
            cls.add("arg-after-pct")
        if "str" in f and seen_prec:
            cls.add("s-after-precision")
        if "precdigits" in f:
            seen_prec = True
    if stress:
        cls.add("small-buffers")
        max_len = rng.choice([8, 16, 64, 512])
        str_len = rng.choice([1, 8, 16, 64, 512])
    else:
        max_len, str_len = rng.choice([(4096, 4096), (4096, 4096), (512, 512), (4096, 512)])
    if len(fmt) > 500:
        cls.add("long-literal")
    if longspec:
        cls.add("long-spec")
    if not cls:
        cls.add("plain")
    clsname = "+".join(sorted(cls))
    call = "serdes_case(%d, %d, %d, %s, %d, %s%s);" % (cid, max_len, str_len, cstr(clsname), ndir, cstr(fmt),
                                                         "".join(", " + a for a in args))
    return call


def gen_batch(seed, batch, n):
    rng = random.Random("c14-%d-%d" % (seed, batch))
    gdir = os.path.join(build.BUILD, "gen")
    os.makedirs(gdir, exist_ok=True)
    path = os.path.join(gdir, "c14_%d_%d.c" % (seed, batch))
    lines = ["#include <stddef.h>", "#include <stdint.h>", "#include <limits.h>", "#include <math.h>",
             "#include <sys/types.h>",
             "void serdes_case(long id, size_t max_len, size_t str_len, const char *cls, int ndir, const char *fmt, ...);",
             "typedef void (*casefn)(void);"]
    for i in range(n):
        lines.append("static void c%d(void) { %s }" % (i, gen_case(rng, i)))
    lines.append("casefn vp_cases[] = { %s };" % ", ".join("c%d" % i for i in range(n)))
    lines.append("const long vp_ncases = %d;" % n)
    with open(path + ".tmp", "w") as f:
        f.write("\n".join(lines) + "\n")
    os.replace(path + ".tmp", path)
    return path


def batch_exe(seed, batch, n=BATCH):
    src = gen_batch(seed, batch, n)
    return build.harness("serdes", "asan", [src, "serdes_rt.c", "vp.c"], extra_cflags=["-O0", "-Wno-format"],
                         wraps=["random", "srand"], outname="serdes_%d_%d" % (seed, batch))


STAGES = {"gen": lambda: batch_exe(1, 0)}
RULE = ("one case = one literal C call (format of 1-12 directives from d i o u x X c s p e E f F g G a A %% with flags, "
        "width, precision, '*', l ll z t j; literal text 0-650 chars; extreme/NULL/'%'-containing arguments) compiled "
        "into a batch program: vsnprintf reference, qb_vsnprintf_serialize into a heap block of exactly max_len, "
        "qb_vsnprintf_deserialize into a heap block of exactly str_len, compare when the text fits; 30% of the cases "
        "use tiny buffers (memory safety only). distinct by (class, format prefix)")


def build_all():
    batch_exe(1, 0)


def run(tier, seed, scale=1.0):
    v = report.Verdict(PROP, tier, seed)
    nb = max(1, int((4 if tier == "quick" else 160) * scale))
    total = runner.Result()
    with ThreadPoolExecutor(8) as ex:
        exes = list(ex.map(lambda b: batch_exe(seed, b), range(nb)))
    for b, exe in enumerate(exes):
        res = runner.run_cases(exe, seed, BATCH, workers=max(2, runner.NCPU // max(1, min(nb, 4))), timeout=600)
        for x in res.violations:
            x["batch"] = b
        v.add_result(res, "gen", exe)
        for h in res.hangs:
            v.add_violation("hang:serdes", h)
        total.absorb(res)
        if tier == "thorough":
            try:
                os.unlink(exe)
            except OSError:
                pass
    # third leg: the same machinery through a real blackbox target, dump file and qb_log_blackbox_print_from_file
    from checks import c15
    bexe = c15.bbtool()
    nbb = int((80 if tier == "quick" else 4000) * scale)
    bres = runner.run_cases(bexe, seed, nbb, args=["--mode", "roundtrip"], timeout=900)
    v.add_result(bres, "blackbox", bexe)
    for h in bres.hangs:
        v.add_violation("hang:bbtool-roundtrip", h)
    total.absorb(bres)
    cov = {"evaluations": total.evaluations, "distinct_nontrivial": len(total.distinct), "rule": RULE,
           "samples": total.samples[:8], "monitor_counters": total.counters,
           "sanitizer_reports": total.sanitizer_reports, "batches": nb}
    return v.finish(cov, assumptions=["glibc vsnprintf is the reference printf; C locale",
                                       "NULL strings only without precision; no %n, %h*, %L*, wide conversions "
                                       "(outside the property's grammar); no \\a marker in literals (C13)",
                                       "asan build from /repo working tree; generated programs compiled with -O0"],
                    min_evaluations=nb * BATCH // 2)


def replay(rep):
    w = rep["witness"]
    if w.get("stage") == "blackbox":
        from checks import c15
        exe = c15.bbtool()
        res = runner.run_cases(exe, w["seed"], 1, args=["--mode", "roundtrip"], first=w["case"], workers=1)
    else:
        exe = batch_exe(w["seed"], w.get("batch", 0))
        res = runner.run_cases(exe, w["seed"], 1, first=w["case"], workers=1)
    for x in res.violations:
        print("REPLAY", x["key"], x["detail"][:400])
    hit = any(x["key"] == rep["key"] for x in res.violations)
    print("replay: %s" % ("reproduced" if hit else "not reproduced"))
    return 1 if hit else 0
