"""C11: overwrite ring / blackbox keeps the newest records, intact."""
from vplib import build, runner, report
from checks import c07, c15

PROP = "C11"
STAGES = {"ring": c07.rbseq, "blackbox": c15.bbtool}


def build_all():
    c07.rbseq()


def run(tier, seed, scale=1.0):
    v = report.Verdict(PROP, tier, seed)
    exe = c07.rbseq()
    n = int((2400 if tier == "quick" else 160000) * scale)
    res = runner.run_cases(exe, seed, n, args=["--mode", "overwrite"], timeout=600)
    v.add_result(res, "ring", exe)
    for h in res.hangs:
        v.add_violation("hang:rbseq-overwrite", h)
    # blackbox part: log -> dump -> print, printed records must be an unbroken suffix ending with the last one
    bexe = c15.bbtool()
    nb = int((120 if tier == "quick" else 6000) * scale)
    bres = runner.run_cases(bexe, seed, nb, args=["--mode", "roundtrip"], timeout=900)
    v.add_result(bres, "blackbox", bexe)
    for h in bres.hangs:
        v.add_violation("hang:bbtool-roundtrip", h)
    res.absorb(bres)
    cov = {
        "evaluations": res.evaluations,
        "distinct_nontrivial": len(res.distinct),
        "rule": "ring part: one case = one overwrite ring (sizes around page multiples and random), 120-700 random "
                "write/alloc+commit/read/peek+reclaim ops; every returned chunk must be an element of the model's "
                "unread sequence, every skipped older one must be outside the newest suffix that fits S at 16 bytes "
                "overhead per chunk; writes <= S must succeed. non-trivial = ring wrapped; distinct by (size class, "
                "wrap, final offset mod 16). blackbox part: blackbox of 1 KiB..256 KiB, 1-3 dumps per case after bursts of "
                "1..1500 records; the printed records must be the newest logged ones, unbroken, ending with the very "
                "last, at least as many as the size guarantees for maximal records",
        "samples": res.samples[:6],
        "monitor_counters": res.counters,
        "sanitizer_reports": res.sanitizer_reports,
    }
    return v.finish(cov, assumptions=["asan build from /repo working tree, guard zones behind ring mappings",
                                       "rings whose observation became ambiguous because of repeated chunks shorter "
                                       "than 4 bytes (no room for a unique id) are judged only up to that point; "
                                       "counted in rings_abandoned_ambiguous_tiny_chunk"],
                    min_evaluations=n // 2)


def replay(rep):
    w = rep["witness"]
    if w.get("stage") == "blackbox":
        w = dict(w); w["args"] = ["--mode", "roundtrip"]
    exe = STAGES[w.get("stage", "ring")]()
    res = runner.run_cases(exe, w["seed"], 1, args=w.get("args", []), first=w["case"], workers=1)
    for x in res.violations:
        print("REPLAY", x["key"], x["detail"][:500])
    hit = any(x["key"] == rep["key"] for x in res.violations)
    print("replay: %s" % ("reproduced" if hit else "not reproduced"))
    return 1 if hit else 0
