"""C09: timers never fire early and the loop never sleeps past the next expiry."""
from vplib import build, simple

PROP = "C09"
WRAPS = ["random", "srand", "clock_gettime", "clock_getres", "epoll_wait", "usleep", "malloc", "calloc", "realloc"]


def loopmodel():
    return build.harness("loopmodel", "asan", ["loopmodel.c", "vp.c"], wraps=WRAPS)


STAGE_LIST = [simple.Stage("timers", loopmodel, ["--mode", "timers"], quick=15000, thorough=200000)]
STAGES = {s.name: s.builder for s in STAGE_LIST}
RULE = ('one case = one loop with 1-200 timers whose durations come from the 64-bit boundary list (0, 1 ns, 1 ms +-1, 50 ms, 2^31 ms +-1, 2^32 ms +-1, 2^62, 2^63 +-1, 2^64-1 ns) or log-uniform, random add/delete histories from inside and outside callbacks, is-running / time-remaining queries, stale handles; the monitor keeps its own [lo,hi] expiry interval per timer from the virtual clock read before/after qb_loop_timer_add and checks each callback time, the expiry order per priority and the timeout of every wrapped epoll_wait against the earliest expiry (slack 1 ms rounding + one tick, +50 ms when the loop uses its job pause); distinct by (registrations, features, callbacks, iterations)')
ASSUME = ['verdicts on virtual time only; callbacks take no virtual time; 1 us of virtual time passes per loop iteration', 'asan build from /repo working tree']


def build_all():
    loopmodel()


def run(tier, seed, scale=1.0):
    return simple.run_stages(PROP, tier, seed, scale, STAGE_LIST, RULE, assumptions=ASSUME)


def replay(rep):
    return simple.replay(rep, STAGE_LIST)
