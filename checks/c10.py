"""C10: event loop priorities are weak: no level is ever starved."""
from vplib import build, simple

PROP = "C10"
WRAPS = ["random", "srand", "clock_gettime", "clock_getres", "epoll_wait", "usleep", "malloc", "calloc", "realloc"]


def loopmodel():
    return build.harness("loopmodel", "asan", ["loopmodel.c", "vp.c"], wraps=WRAPS)


STAGE_LIST = [simple.Stage("fair", loopmodel, ["--mode", "fair"], quick=5000, thorough=50000)]
STAGES = {s.name: s.builder for s in STAGE_LIST}
RULE = ('one case = a saturating workload: per priority 0-50 sources, each a self-re-adding job, a self-re-adding zero-delay timer or a never-drained readable eventfd, run for 300-1200 iterations (wrapped epoll_wait = iteration boundary); per backlogged level every window of three consecutive iterations must contain a dispatch and over whole rounds HIGH >= MED >= LOW in iterations with a dispatch (one of slack); non-trivial = at least two levels backlogged, distinct by the per-level source vector')
ASSUME = ['purely logical: iterations are delimited by the wrapped epoll_wait; the first 6 iterations are warm-up', "with more ready descriptors than one epoll_wait returns, which item is served is the kernel's choice: judged per level"]


def build_all():
    loopmodel()


def run(tier, seed, scale=1.0):
    return simple.run_stages(PROP, tier, seed, scale, STAGE_LIST, RULE, assumptions=ASSUME)


def replay(rep):
    return simple.replay(rep, STAGE_LIST)
