"""C15: blackbox dump files - faithful round trip, no crash on damaged files."""
from vplib import build, simple

PROP = "C15"
WRAPS = ["random", "srand", "mmap", "munmap"]


def bbtool():
    return build.harness("bbtool", "asan", ["bbtool.c", "vp.c", "vpguard.c"], wraps=WRAPS)


STAGE_LIST = [
    simple.Stage("roundtrip", bbtool, ["--mode", "roundtrip"], quick=160, thorough=8000, timeout=900),
    simple.Stage("corrupt", bbtool, ["--mode", "corrupt"], quick=6400, thorough=400000, timeout=1800),
]
STAGES = {s.name: s.builder for s in STAGE_LIST}
RULE = ("roundtrip: blackbox of 1 KiB..256 KiB, 1-3 dumps per case after bursts of 1..1500 records with random "
        "function, line, tags, priority and printf arguments; every printed record is compared field by field "
        "(timestamp to the millisecond window of the log call) and the printed records must be an unbroken suffix "
        "ending with the last logged one. corrupt: 6 base dumps (wrapped/unwrapped, 1-900 records); every truncation "
        "length of the first base (case number = length), truncations at structural boundaries, each ring/blackbox "
        "header word and each chunk/record field set to boundary values with the header hash recomputed, hostile "
        "format strings, unterminated strings, random byte flips, non-dumps; each file printed in a forked ASan child "
        "with guard zones and RLIMIT_CPU; wait status and /dev/shm are audited. distinct by (class, length, base, "
        "result)")


def build_all():
    bbtool()


def run(tier, seed, scale=1.0):
    return simple.run_stages(PROP, tier, seed, scale, STAGE_LIST, RULE,
                             assumptions=["each harness process has a private tmpfs on /dev/shm (mount namespace); "
                                          "without it printing is serialised on a lock file",
                                          "message text is compared for messages shorter than 450 characters (longer "
                                          "ones may be replaced by the fixed notice)",
                                          "asan + bounds build, 24 GiB guard zone behind ring mappings, TZ=UTC"])


def replay(rep):
    return simple.replay(rep, STAGE_LIST)
