"""C07: ring capacity contract and loss-free sequential FIFO."""
from vplib import build, runner, report

PROP = "C07"
WRAPS = ["random", "srand", "mmap", "munmap"]


def rbseq():
    return build.harness("rbseq", "asan", ["rbseq.c", "vp.c", "vpguard.c"], wraps=WRAPS)


STAGES = {"model": rbseq}


def build_all():
    rbseq()


def run(tier, seed, scale=1.0):
    v = report.Verdict(PROP, tier, seed)
    exe = rbseq()
    n = int((2400 if tier == "quick" else 240000) * scale)
    res = runner.run_cases(exe, seed, n, args=["--mode", "normal"], timeout=600)
    v.add_result(res, "model", exe)
    c = res.counters
    cov = {
        "evaluations": res.evaluations,
        "distinct_nontrivial": len(res.distinct),
        "rule": "one case = one ring (size class from the page-boundary list or random) driven by 120-700 random "
                "write/alloc+commit/read/short-read/peek/reclaim ops and compared op by op with a FIFO model; "
                "non-trivial = the case saw a wrap-around or a refused write; distinct by hash of (size class, "
                "refusal seen, wrap seen, final write offset mod 16)",
        "samples": res.samples[:6],
        "monitor_counters": c,
        "sanitizer_reports": res.sanitizer_reports,
    }
    if res.hangs:
        for h in res.hangs:
            v.add_violation("hang:rbseq", h)
    return v.finish(cov, assumptions=["x86-64, 4 KiB pages; ASan + bounds build of libqb from /repo working tree",
                                       "PROT_NONE guard zone of 24 GiB behind every ring mapping",
                                       "single-threaded (concurrency is C01)"],
                    min_evaluations=n // 2)


def replay(rep):
    w = rep["witness"]
    exe = STAGES[w.get("stage", "model")]()
    res = runner.run_cases(exe, w["seed"], 1, args=w.get("args", []), first=w["case"], workers=1)
    for x in res.violations:
        print("REPLAY", x["key"], x["detail"][:500])
    hit = any(x["key"] == rep["key"] for x in res.violations)
    print("replay: %s" % ("reproduced" if hit else "not reproduced"))
    return 1 if hit else 0
