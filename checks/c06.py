"""C06: bytes from a peer never corrupt the other side, whatever they say."""
from vplib import build, simple

PROP = "C06"


def ipcbed():
    return build.harness("ipcbed", "asan", ["ipcbed_main.c", "ipcbed_server.c", "vp.c", "vpguard.c"], wraps=["random", "srand", "mmap", "munmap"])


STAGE_LIST = [simple.Stage("c06", ipcbed, ["--mode", "c06"], quick=240, thorough=12000, timeout=1200, chunk=2)]
STAGES = {s.name: s.builder for s in STAGE_LIST}
RULE = ("one case = one asan server (msg_process reads every byte it is told it has; 24 GiB guard zones behind ring "
        "mappings) attacked by (a) 10-70 hostile handshakes: every prefix length, each field (id, size, max_msg_size) "
        "set to boundary values, garbage of 0-4096 bytes, valid request plus extra bytes, byte-by-byte delivery, silent "
        "connections, up to 60 simultaneous idle ones, and/or (b) 1-2 accepted peers that did the handshake themselves "
        "(requested maximum 0, 1, 24, 100 .. 20000) and then write 3-28 requests straight into the channel (datagram "
        "socket / request ring) whose header length is smaller, larger, zero, negative, INT32_MAX or above the "
        "negotiated maximum, shorter than a header, with the disconnect id, without or with surplus notification bytes. "
        "A well-behaved control client must be served before and after; descriptors must return to the baseline; "
        "msg_process must never be told more bytes than were sent or negotiated. distinct by (transport, part, "
        "requested maximum, handshake classes)")


def build_all():
    ipcbed()


def run(tier, seed, scale=1.0):
    return simple.run_stages(PROP, tier, seed, scale, STAGE_LIST, RULE,
                             assumptions=["max_msg_size requests are capped at 64 MiB to keep the sandbox alive", "asan server process per case, guard zones behind ring mappings"])


def replay(rep):
    return simple.replay(rep, STAGE_LIST)
