"""C17: maps behave like a dictionary; notifiers fire once."""
from vplib import build, simple

PROP = "C17"


def mapmodel():
    return build.harness("mapmodel", "asan", ["mapmodel.c", "vp.c"], wraps=["random", "srand"])


STAGE_LIST = [simple.Stage(impl, mapmodel, ["--impl", impl, "--iters", "0"], quick=1500, thorough=100000,
                           key_suffix=":" + impl) for impl in ("hash", "skip", "trie")]
STAGES = {s.name: s.builder for s in STAGE_LIST}
RULE = ("one case = one map (hashtable / skiplist / trie) over an adversarial key pool (all {a,b}-strings up to 5, "
        "prefix chains, bytes >= 0x80 / 0x7f / 0x01, 250-310 byte keys with long shared prefixes, single chars, random "
        "words), 80-300 ops: put (new / replace, either of two key pointers), rm (present and absent), get, count, "
        "complete / prefix iteration, foreach abandoned by the callback, notifier add/delete (global, per key, "
        "recursive prefix, FREE), destroy; every result and the multiset of notifications of every op are compared "
        "with a dictionary + notifier-registry model. non-trivial = case contains rm of an absent key, a prefix "
        "iteration, an abandoned foreach or a notifier; distinct by op-trace hash")


def build_all():
    mapmodel()


def run(tier, seed, scale=1.0):
    return simple.run_stages(PROP, tier, seed, scale, STAGE_LIST, RULE,
                             assumptions=["asan build from /repo working tree; skiplist levels from the seeded PRNG",
                                          "INSERTED notifications are judged on the trie only (qbmap.h: only valid on "
                                          "tries); values are never NULL and keys never empty (API preconditions)",
                                          "trie iteration order is accepted when ascending in signed-char byte order "
                                          "(reported as diagnostic)"])


def replay(rep):
    return simple.replay(rep, STAGE_LIST)
