"""C05: IPC admission - only accepted peers get channels; their files stay private."""
from vplib import build, simple

PROP = "C05"


def ipcbed():
    return build.harness("ipcbed", "asan", ["ipcbed_main.c", "ipcbed_server.c", "vp.c", "vpguard.c"],
                         wraps=["random", "srand", "mmap", "munmap"])


STAGE_LIST = [
    simple.Stage("admission", ipcbed, ["--mode", "c05"], quick=160, thorough=4000, timeout=900, chunk=5),
]
STAGES = {s.name: s.builder for s in STAGE_LIST}
RULE = ("a root server with an accept policy that is a pure function of (uid, gid) (refuse with one of 6 error codes / accept with "
        "default ownership / accept and set owner, group and one of 5 modes) runs under a ptrace tracer; 2-7 clients per case "
        "with distinct effective uid/gid (a third of them with different real and saved ids), library clients and raw peers that "
        "keep sending after a refusal, start at once. monitor: at EVERY syscall stop of the server everything under "
        "/dev/shm/qb-<server>-<client>-* is lstat()ed and recorded; once with all clients at rest inside their connection; once "
        "after everybody left. oracle over the records and logs: accept arguments = the client's effective ids; connect errno = "
        "the policy's error; a refused peer never has a file, its directory is gone at the end, msg_process never runs for it; "
        "file modes are a subset of the chosen mode at every recorded moment, directories never open to others; at rest owner "
        "and group of files and directory are the authorised ones; peers accepted with default ownership can connect and talk. "
        "distinct = (object class, mode, owner-ok, group-ok, decision class, phase) combinations seen")


def build_all():
    ipcbed()


def run(tier, seed, scale=1.0):
    return simple.run_stages(PROP, tier, seed, scale, STAGE_LIST, RULE, level="exploration",
                             assumptions=["the harness runs as root in a private mount namespace (needed to take other uids and for a private /dev/shm)",
                                          "file system state changes of the server happen in system calls, so a scan at every syscall "
                                          "stop sees every intermediate state; the clients never chmod/chown",
                                          "the directory is judged as designed (0770, not open to others): group access to the directory is "
                                          "not counted against the chosen file mode"])


def replay(rep):
    return simple.replay(rep, STAGE_LIST)
