"""C04: IPC server callback order accept, created, msg*, closed, destroyed; no use after free."""
from vplib import build, simple

PROP = "C04"


def ipcbed():
    return build.harness("ipcbed", "asan", ["ipcbed_main.c", "ipcbed_server.c", "vp.c", "vpguard.c"], wraps=["random", "srand", "mmap", "munmap"])


STAGE_LIST = [simple.Stage("c04", ipcbed, ["--mode", "c04"], quick=320, thorough=8000, timeout=1200, chunk=2)]
STAGES = {s.name: s.builder for s in STAGE_LIST}
RULE = ("one case = one asan server process with random lifecycle actions inside every callback (refuse in accept, "
        "disconnect in created/msg, events, extra references released by a later timer, closed returning non-zero 0-3 "
        "times, rate-limit changes, connection-list iteration) and 2-8 client processes that connect, send 0-12 "
        "protocol commands (REF/UNREF/CLOSED_RETRY/DISCONNECT_ME/ITERATE/RATE/EVENTS/DESTROY_SERVICE/ECHO) and then "
        "disconnect politely, exit silently or SIGKILL themselves, overlapping and in sequence. A per-connection "
        "automaton in the server checks every callback online (accept [created msg* closed(!=0)* closed(0)]? destroyed; "
        "destroyed once, only with zero application references, nothing afterwards); every accepted connection must be "
        "destroyed after the clients are gone; ASan watches connection and service memory. distinct by case")


def build_all():
    ipcbed()


def run(tier, seed, scale=1.0):
    return simple.run_stages(PROP, tier, seed, scale, STAGE_LIST, RULE,
                             assumptions=["accept = 0 does not guarantee created/closed (qbipcs.h); a disconnect issued from inside connection_created may end without closed",
                                          "asan server process per case; real client processes"])


def replay(rep):
    return simple.replay(rep, STAGE_LIST)
