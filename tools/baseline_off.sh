#!/bin/sh
# Runs the repository's own test suite with the verification guard (QB_VERIF) OFF:
# the autotools build never defines it.
set -e
cd /repo
make -j16 >/dev/null 2>&1 || make -j16
make check 2>&1 | tail -40
