#!/usr/bin/env python3
"""Regenerate the catch matrix in DESIGN.md (section 8.4) from seeded/RESULTS.json and seeded/*/meta.json."""
import json, os, re
V = os.path.dirname(os.path.dirname(os.path.abspath(__file__)))
res = json.load(open(os.path.join(V, "seeded", "RESULTS.json")))
rows = ["| seeded change | property | source | what it does | caught by (tier: keys) | missed by |", "|---|---|---|---|---|---|"]
for name in sorted(res):
    mp = os.path.join(V, "seeded", name, "meta.json")
    if not os.path.exists(mp):
        continue
    meta = json.load(open(mp))
    caught, missed = [], []
    for cid, v in sorted(res[name].items()):
        if not isinstance(v, dict):
            continue
        if v.get("caught"):
            caught.append("%s (%s, %ss): %s" % (cid, v.get("tier", "quick"), v.get("wall_s"), "; ".join(k[:70] for k in v["keys"][:2])))
        else:
            missed.append("%s (%s)" % (cid, v.get("tier", "quick")))
    rows.append("| %s | %s | %s | %s | %s | %s |" % (name, meta["property"], meta.get("source", ""), meta.get("description", "").replace("|", "/")[:260],
                                                "<br>".join(caught) or "-", ", ".join(missed) or "-"))
txt = "\n".join(rows)
p = os.path.join(V, "DESIGN.md")
s = open(p).read()
s = re.sub(r"<!-- CATCH-MATRIX-BEGIN -->.*<!-- CATCH-MATRIX-END -->", "<!-- CATCH-MATRIX-BEGIN -->\n" + txt.replace("\\", "\\\\") + "\n<!-- CATCH-MATRIX-END -->", s, flags=re.S)
open(p, "w").write(s)
print("%d rows" % (len(rows) - 2))
