#!/bin/sh
# scratch worktree of /repo for a sub-agent: /tmp/wt-<id>, configured and built
id=$1
git -C /repo worktree add --detach /tmp/wt-$id HEAD >/dev/null 2>&1 || exit 1
cd /tmp/wt-$id && ./autogen.sh >/dev/null 2>&1 && ./configure >/dev/null 2>&1 && make -j4 >/dev/null 2>&1
echo "$id rc=$?"
