#!/usr/bin/env python3
"""Run checks against the seeded property-breaking changes kept under /verif/seeded/.

  tools/seeded.py                 every seeded change against the check of its own property (quick tier)
  tools/seeded.py NAME [IDS...]   one change against the listed checks (default: its own property)
  tools/seeded.py --tier thorough ...

Each change is applied to a scratch copy of /repo under /tmp (removed afterwards); the checks run with
VERIF_REPO pointing at the copy, so neither /repo nor the committed evidence is touched.  The outcome
(caught / missed, the violation keys) is written to seeded/RESULTS.json.
"""
import json
import os
import shutil
import subprocess
import sys
import time

VERIF = os.path.dirname(os.path.dirname(os.path.abspath(__file__)))
SEEDED = os.path.join(VERIF, "seeded")


def run_one(name, ids, tier):
    d = os.path.join(SEEDED, name)
    meta = json.load(open(os.path.join(d, "meta.json")))
    ids = ids or [meta["property"]]
    scratch = "/tmp/vp-seeded-%s-%d" % (name, os.getpid())
    shutil.rmtree(scratch, ignore_errors=True)
    subprocess.check_call(["rsync", "-a", "--exclude", ".git", "--exclude", "*.o", "--exclude", "*.lo", "--exclude", ".libs",
                           "/repo/", scratch + "/"])
    out = {}
    try:
        p = subprocess.run(["patch", "-p1", "-s", "-d", scratch, "-i", os.path.join(d, "patch.diff")],
                           stdout=subprocess.PIPE, stderr=subprocess.STDOUT, text=True)
        if p.returncode != 0:
            return {"error": "patch does not apply: " + p.stdout[-300:]}
        for cid in ids:
            env = dict(os.environ, VERIF_REPO=scratch)
            env.setdefault("VERIF_SEED", "1")
            t0 = time.time()
            p = subprocess.run([os.path.join(VERIF, "check"), cid, "--tier", tier], env=env,
                               stdout=subprocess.PIPE, stderr=subprocess.STDOUT, text=True)
            keys = []
            for line in p.stdout.splitlines():
                if line.startswith("VIOLATION "):
                    k = [w for w in line.split() if w.startswith("key=")]
                    keys.append(k[0][4:] if k else line[:120])
            out[cid] = {"exit": p.returncode, "caught": p.returncode == 1 and bool(keys), "keys": sorted(set(keys))[:12],
                        "wall_s": round(time.time() - t0, 1), "tier": tier}
            if p.returncode not in (0, 1):
                out[cid]["tail"] = p.stdout[-400:]
    finally:
        shutil.rmtree(scratch, ignore_errors=True)
        import hashlib
        shutil.rmtree(os.path.join("/tmp", "vp-build-" + hashlib.sha1(scratch.encode()).hexdigest()[:10]), ignore_errors=True)
    return out


def main():
    args = sys.argv[1:]
    tier = "quick"
    if "--tier" in args:
        i = args.index("--tier"); tier = args[i + 1]; del args[i:i + 2]
    names = [args[0]] if args else sorted(n for n in os.listdir(SEEDED) if os.path.isdir(os.path.join(SEEDED, n)))
    ids = args[1:]
    resp = os.path.join(SEEDED, "RESULTS.json")
    try:
        results = json.load(open(resp))
    except Exception:
        results = {}
    for n in names:
        r = run_one(n, ids, tier)
        results.setdefault(n, {}).update(r)
        for cid, v in r.items():
            if isinstance(v, dict):
                print("%-28s %s %-7s %s %s" % (n, cid, "CAUGHT" if v["caught"] else "missed", v["wall_s"], ",".join(v["keys"])[:200]))
            else:
                print(n, cid, v)
        json.dump(results, open(resp, "w"), indent=1, sort_keys=True)
    shutil.rmtree("/tmp/vp-mut-out", ignore_errors=True)


if __name__ == "__main__":
    main()
