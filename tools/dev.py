#!/usr/bin/env python3
"""dev helper: tools/dev.py <check-module> <stage> -- harness args  (build + run one process)"""
import sys, os, subprocess, importlib
sys.path.insert(0, os.path.dirname(os.path.dirname(os.path.abspath(__file__))))
from vplib import runner
mod = importlib.import_module("checks." + sys.argv[1])
exe = mod.STAGES[sys.argv[2]]()
args = sys.argv[sys.argv.index("--") + 1:] if "--" in sys.argv else []
sys.exit(subprocess.call([exe] + args, env=runner.base_env()))
