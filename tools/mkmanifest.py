#!/usr/bin/env python3
"""Regenerate /verif/MANIFEST.json from the table below (and validate it)."""
import json, os, sys

VERIF = os.path.dirname(os.path.dirname(os.path.abspath(__file__)))

# id: (category, technique, level text, level note, design ref)
CHECKS = {
    "C07": ("exploration",
            "differential testing of the real ring against a sequential FIFO model under ASan + guard zones",
            "Held on every generated ring history: each op's result is compared with a FIFO model and the capacity "
            "contract (accept on empty up to S; accept while sum(len+16) fits S; refusal = -EAGAIN and no state "
            "change; short read = -ENOBUFS, chunk stays). Sizes target page boundaries, payloads contain the ring's "
            "marker constants. Runtime monitoring cannot give the universal quantifier; it gives thousands of "
            "histories with wrap/refusal in each.",
            "trusts kernel/glibc/ASan runtime; single-threaded; x86-64 4 KiB pages", "DESIGN.md C07"),
    "C11": ("exploration",
            "differential testing of the overwrite ring against a newest-suffix model (ASan + guard zones); "
            "blackbox dump/print suffix oracle",
            "Every chunk returned from an overwrite ring must come from the model's unread sequence, nothing that "
            "the newest-fitting-suffix rule requires to be retained may be skipped, writes <= S must succeed.",
            "trusts kernel/glibc/ASan runtime; single-threaded", "DESIGN.md C11"),
}

CHECKS["C20"] = ("exploration",
    "differential testing of the handle database against a refcount model with a destructor ledger (ASan), with an allocation failpoint (--wrap=malloc,calloc) for creates that fail",
    "Each op's result on live, released, pending-removal, forged and no-check handles is compared with a "
    "refcount model; the destructor ledger checks exactly-once and the moment (the call that drops the count to "
    "zero); iteration must visit exactly the not-destroyed objects.",
    "trusts ASan runtime; libqb's random() replaced by seeded PRNG; single-threaded", "DESIGN.md C20")

CHECKS["C19"] = ("exploration",
    "address/zero-init/pattern/disjointness oracle over generated index+grow histories; multi-thread stress under "
    "ThreadSanitizer and ASan",
    "Sequential histories are compared with a size model and an address table; concurrent index/grow from 2-8 "
    "threads runs on TSan and ASan builds, so a data race or a use-after-free in the bin table is reported even "
    "when it does not corrupt anything in that run. Interleavings are sampled, not enumerated.",
    "trusts TSan/ASan runtimes; OS scheduling on 16 cores", "DESIGN.md C19")

CHECKS["C17"] = ("exploration",
    "differential testing of hashtable/skiplist/trie against a dictionary + notifier-registry model (ASan); key storage the map must no longer use is scribbled over",
    "Every op result (get, rm, count, complete/prefix iteration incl. order) and the multiset of notifier "
    "invocations of every op (event, key, old, new, user data; FREE exactly once per value incl. destroy) is "
    "compared with a model, over adversarial key pools, for each implementation.",
    "model written from qbmap.h; INSERTED judged on trie only; values non-NULL, keys non-empty", "DESIGN.md C17")
CHECKS["C18"] = ("exploration",
    "same engine with up to 4 open iterators under mutation: ASan for memory safety, per-iterator coverage "
    "oracle, dictionary equivalence once iterators are gone",
    "Histories interleave iter create/next/free (also early) with put/rm/get, removal biased to parked entries. "
    "Violation keys carry the hazard class of the history (P put while open, R rm of parked entry, D repeated rm) "
    "and restricted stages (no R for skiplist; documented use for trie) must stay clean, so the known trie and "
    "skiplist findings do not hide regressions outside their class.",
    "ASan quarantine 64 MiB; known findings listed in known_findings.json", "DESIGN.md C18")

CHECKS["C14"] = ("exploration",
    "generated literal printf-style calls compiled into batch programs: decode(encode(x)) compared with glibc "
    "vsnprintf, exact-size heap buffers under ASan/UBSan-bounds",
    "Every generated (format, arguments) pair is encoded into a heap block of exactly max_len and decoded into a "
    "block of exactly str_len, so a single byte out of bounds is an ASan report; the decoded text must equal "
    "vsnprintf's whenever it fits. Formats cover the property's grammar with 1-12 directives in any order so that "
    "state carried between directives is exercised.",
    "glibc vsnprintf as reference; x86-64 LP64 (l, ll, z, t, j all 64 bit)", "DESIGN.md C14")

CHECKS["C13"] = ("exploration",
    "differential testing of qb_log_target_format against an independent reference formatter with exact-size heap "
    "buffers under ASan; real log calls (empty/over-long/extended-marker messages) to custom + file targets with a "
    "liveness probe",
    "Every generated (format, limit, ellipsis, call site, message) is formatted into a heap block of exactly the "
    "line limit and compared with a reference written from qblog.h; hostile formats and limits are judged for "
    "memory safety and termination; the calls driver checks delivery, message text, file line and that the logger "
    "is still alive afterwards.",
    "reference semantics where qblog.h is silent are taken from tests/check_log.c ('-' = right aligned) or not "
    "judged (unknown directives, squeezed right-aligned field at the limit, newline inside a truncated line)",
    "DESIGN.md C13")

CHECKS["C12"] = ("exploration",
    "routing differential test against a declarative filter model + metamorphic comparison (call sites created up "
    "front vs. at first use) with history shrinking",
    "Every log call's set of receiving targets and tag is compared with a declarative model (enabled and some "
    "stored filter selects the site) on histories without overlapping removals, and every history is executed "
    "twice, with old and with new call sites; deliveries must be identical. Failing histories are shrunk and keyed "
    "by their features, and the overlap-free part of every history is judged separately so that the two known "
    "overlap classes hide nothing else.",
    "custom targets only (routing is target-type independent); regexec as reference for regex filters",
    "DESIGN.md C12")

CHECKS["C16"] = ("exploration",
    "sequence-numbered messages through threaded custom targets under ThreadSanitizer and ASan; offline "
    "order / exactly-once / drop-accounting / fini-drain oracle over the recorded logger invocations; competing busy "
    "threads in a third of the cases, a fini-race stage, refused control operations, a watchdog thread for stuck cases",
    "All legal orders of init, set-threaded, thread-start, control, fini and re-init are generated; the loggers "
    "record (target, sequence); after qb_log_fini the history must be strictly increasing per target, missing "
    "messages must equal the sum of 'N messages lost' reports, and nothing may arrive after fini returned. TSan "
    "decides data races between producer/control operations and the logging thread, ASan the lock/record "
    "lifetimes across stop and re-init.",
    "one producer; OS scheduling with seeded delays; three known data-race findings in known_findings.json",
    "DESIGN.md C16")

CHECKS["C15"] = ("exploration",
    "log->dump->print round-trip oracle; exhaustive truncations of a base dump plus field-targeted (hash recomputed) "
    "and random corruptions printed in forked ASan children with guard zones, CPU limit and /dev/shm audit",
    "Round trip: every printed record is compared field by field with what was logged. Robustness: each damaged file "
    "is printed by the real qb_log_blackbox_print_from_file in a sandboxed child; the wait status decides (signal, "
    "abort, ASan/UBSan report, CPU limit = violation) and /dev/shm must be empty afterwards. All truncation lengths "
    "of one base dump are enumerated (case number = length); the rest of the space is sampled.",
    "private /dev/shm per worker (mount namespace); ASan + 24 GiB guard zones; RLIMIT_CPU 5 s as the bound for "
    "'terminates'", "DESIGN.md C15")

CHECKS["C08"] = ("exploration",
    "registration-ledger monitor on the real event loop under a virtual clock with wrapped epoll_wait; user data "
    "blocks freed as soon as no callback may follow (ASan turns a late callback into a use-after-free); duplicate adds, "
    "job_del naming a timer, signal priority changes, descriptors re-added inside retiring callbacks",
    "Random add/modify/delete programs on jobs, timers, descriptors and signals, issued from outside and from "
    "inside callbacks, are checked online by a ledger: exactly-once, nothing after a successful delete (also for "
    "items already queued for dispatch), stale timer handles rejected, job FIFO per priority, signal counts, "
    "qb_loop_stop from callbacks, everything due has run after a bounded drain.",
    "virtual time; signals raise()d from the loop thread; one loop per process at a time", "DESIGN.md C08")
CHECKS["C09"] = ("exploration",
    "virtual-clock monitor: callback time vs expiry interval, expiry order per priority, every wrapped epoll_wait "
    "timeout vs the earliest pending expiry, over the full 64-bit duration range",
    "The monitor keeps its own [lo,hi] expiry interval for every timer (virtual clock read before/after the add "
    "call) and judges each callback time, each epoll_wait timeout (negative = blocks indefinitely, otherwise wake-up "
    "no later than earliest expiry + 1 ms rounding + one tick, +50 ms for the job pause) and the is-running / "
    "time-remaining queries. Verdicts are on logical time only.",
    "clock_gettime/clock_getres/usleep/epoll_wait wrapped at link time; callbacks take no virtual time",
    "DESIGN.md C09")
CHECKS["C10"] = ("exploration",
    "dispatch-per-iteration trace oracle (3-iteration service window per level, waiting-time bound per item, ratio "
    "ordering) over generated saturating workloads",
    "Self-re-adding jobs, zero-delay timers and never-drained descriptors at the three priorities in random "
    "proportions run for 300-1200 iterations; every backlogged level must dispatch in every window of three "
    "iterations and higher levels must not be served in fewer iterations than lower ones.",
    "purely logical (iterations delimited by the wrapped epoll_wait); levels fed only by descriptors are judged "
    "only when all ready descriptors fit one epoll_wait", "DESIGN.md C10")

CHECKS["C01"] = ("exploration",
    "SPSC history oracle under a controlled scheduler that uses the ring code's ThreadSanitizer instrumentation as "
    "yield points; real ThreadSanitizer with the chunk-magic release/acquire as the only writer-to-reader edge; "
    "free-running two-thread and two-process stress",
    "Every chunk is a pure function of (seed, index); the reader recomputes length and bytes of each chunk it gets, "
    "so order, exactly-once and tearing are decided per read and conservation at quiescence. Interleavings are "
    "driven at the granularity of individual instrumented accesses by a seeded serialising scheduler (uniform and "
    "PCT policies); memory-order weakening, invisible on x86, is decided by ThreadSanitizer with write_pt treated "
    "as a relaxed atomic and read_pt as release/acquire.",
    "x86-64 TSO only; volatile modelled as described; schedules sampled (thousands of distinct ones per run), not "
    "enumerated", "DESIGN.md C01")

CHECKS["C02"] = ("exploration",
    "unique-id message ledger recorded at the client API boundary and in the server callbacks of real processes, "
    "checked offline (exactly-once, order, bytes, refused-send-has-no-effect, pollability) on both transports under "
    "back-pressure",
    "Each process logs call and return of every IPC call; the merged history is judged by a deterministic checker: "
    "the sequence of requests whose send returned success must equal the sequence handed to msg_process (length and "
    "checksum included), refused or oversize sends must never show up, responses and events must arrive in order and "
    "intact, all accepted events must have been received at quiescence, and the client's descriptor must poll "
    "readable while events are known to be queued. Workloads reach ring-full, flow control (OFF/OFF_2 with "
    "fc_enable_max 1/2) and a full notification socket.",
    "relative speeds are OS-scheduled plus seeded delays; asan server; abstract sockets only", "DESIGN.md C02")

CHECKS["C04"] = ("exploration",
    "online per-connection lifecycle automaton on the server callbacks + application reference ledger + ASan, over "
    "random lifecycle histories driven by real client processes",
    "The server process (ASan) takes random actions inside every callback and from timers - refuse, disconnect, "
    "send, extra references released later, closed retries, rate-limit changes, list iteration, service destruction "
    "with live connections - while clients connect, talk, disconnect, exit or are killed. Every callback is checked "
    "by an automaton (accept [created msg* closed(!=0)* closed(0)]? destroyed, destroyed exactly once and never "
    "while the application holds a reference, nothing afterwards), all accepted connections must end destroyed, and "
    "ASan reports any touch of freed connection or service memory.",
    "a disconnect from inside connection_created may legitimately end without closed (documented in DESIGN.md)",
    "DESIGN.md C04")

CHECKS["C06"] = ("exploration",
    "hostile raw peers (handshake fuzz, accepted peers with lying headers on the raw channels) against an ASan server "
    "with ring guard zones; liveness, descriptor and reported-length oracles",
    "Raw socket peers send every prefix of a handshake, each field at boundary values, garbage, surplus and slow "
    "bytes; accepted peers that performed the handshake themselves write datagrams / ring chunks whose header "
    "disagrees with what was sent. The server's msg_process reads every byte it is told about, so an over-long "
    "report is an ASan or guard-zone fault as well as a violation of reported <= min(sent, negotiated). A control "
    "client must be served before and after and descriptors must return to the baseline.",
    "max_msg_size capped at 4 MiB; asan server; 24 GiB guard zones", "DESIGN.md C06")

CHECKS["C03"] = ("fault_enumeration",
    "ptrace crash-point enumeration: the dying process is killed at its n-th syscall entry/exit stop, then the "
    "survivor is audited (callback automaton, stats, /proc/<pid>/fd, /dev/shm, control client; call latencies and "
    "error codes on the client side)",
    "Client death: 4 scenarios (transport x empty / non-empty queues) of connect, traffic, events, queued requests "
    "and disconnect; the victim is killed at every 7th (quick) / every (thorough) syscall stop. Every handshake "
    "prefix x {exit, stall, byte-wise}. Server death: the traced server is killed at the n-th stop after the first "
    "connection exists (including while it sets up or tears down a second client); the surviving client's recv, "
    "sendv_recv (finite and infinite), event_recv(-1), later send/recv and disconnect are timed and their results "
    "judged; non-empty files of the survivor's connection are looked for after qb_ipcc_disconnect.",
    "crash points are syscall boundaries; deadlines get 1 s allowance, a missed one is re-run once", "DESIGN.md C03")

CHECKS["C05"] = ("exploration",
    "clients under distinct (effective != real) uids/gids against a ptrace-d root server: /dev/shm scanned at every "
    "server syscall stop (modes at every moment, owners at rest, residue at the end), accept arguments and connect "
    "results checked against the policy function",
    "Accept policy = pure function of (uid, gid): refusal with 6 error codes, default ownership, or owner/group/mode "
    "set by the callback. Library clients and raw peers that keep talking after the refusal, 2-7 concurrently per "
    "case, both transports. The monitor records every distinct (object, mode, owner, group) it sees under "
    "/dev/shm at each syscall stop of the server; the oracle judges the records afterwards against what the accept "
    "callback was told and decided.",
    "needs root and a private mount namespace; directory mode judged as designed (0770)", "DESIGN.md C05")

REASON_PENDING = "check not registered yet in this revision (implementation in progress, see DESIGN.md section 7)"


def main():
    props = [json.loads(l)["id"] for l in open(os.path.join(VERIF, "properties.jsonl"))]
    checks = []
    for pid in props:
        if pid not in CHECKS:
            continue
        cat, tech, text, note, ref = CHECKS[pid]
        checks.append({
            "property_id": pid,
            "quick_cmd": "./check %s --tier quick" % pid,
            "thorough_cmd": "./check %s --tier thorough" % pid,
            "evidence_file": "evidence/%s.json" % pid,
            "replay_cmd_template": "./check %s --replay {path}" % pid,
            "engine": "vp-runtime-monitors",
            "level_claimed": {"category": cat, "text": text, "design_ref": ref},
            "level_note": note,
            "technique": tech,
        })
    man = {
        "version": 1,
        "setup_cmd": "./check setup",
        "hooks": {
            "guard": "QB_VERIF",
            "enable": "checks compile /repo/lib/*.c themselves with -DQB_VERIF (vplib/build.py); no source hook "
                      "exists so far, instrumentation comes from the compiler (sanitizers, TSan ABI) and from "
                      "-Wl,--wrap at link time",
            "baseline_off_cmd": "sh tools/baseline_off.sh",
            "source_commits": [],
            "add_only": True,
        },
        "engines": [{
            "name": "vp-runtime-monitors",
            "path": "check",
            "serves_properties": sorted(CHECKS),
            "kind_free_text": "runtime monitoring: generated workloads against the real code built with "
                              "ASan/UBSan-bounds/TSan, reference-model and history oracles, fault injection",
        }],
        "checks": checks,
        "not_applicable": [{"property_id": p, "reason": REASON_PENDING} for p in props if p not in CHECKS],
        "notes": "known_findings.json lists genuine defects (fixed ones with their fix: commit). "
                 "VERIF_SEED selects the PRNG seed, VERIF_SCALE multiplies case counts.",
    }
    with open(os.path.join(VERIF, "MANIFEST.json"), "w") as f:
        json.dump(man, f, indent=1)
    try:
        import jsonschema
        jsonschema.validate(man, json.load(open("/root/.vp/MANIFEST.schema.json")))
        print("MANIFEST.json valid, %d checks" % len(checks))
    except ImportError:
        print("MANIFEST.json written (jsonschema not importable here)")


if __name__ == "__main__":
    main()
