"""Verdicts: known-finding matching, replay files, evidence, exit status."""
import fnmatch, hashlib, json, os, sys, time

VERIF = os.path.dirname(os.path.dirname(os.path.abspath(__file__)))
KNOWN = os.path.join(VERIF, "known_findings.json")
# scratch-copy runs (mutation testing with VERIF_REPO=...) must not touch the committed evidence
OUT = VERIF if os.environ.get("VERIF_REPO", "/repo") == "/repo" else "/tmp/vp-mut-out"


def load_known(prop):
    try:
        with open(KNOWN) as f:
            data = json.load(f)
    except FileNotFoundError:
        return []
    return [e for e in data.get("findings", []) if e.get("property") == prop]


def short(s, n=1200):
    s = str(s)
    return s if len(s) <= n else s[:n] + "...[cut]"


class Verdict:
    """Collects violations (each with a key), decides exit status."""

    def __init__(self, prop, tier, seed, level="exploration"):
        self.prop, self.tier, self.seed, self.level = prop, tier, seed, level
        self.t0 = time.time()
        self.violations = {}     # key -> list of witnesses
        self.inconclusive = []
        self.harness_errors = []
        self.coverage = {}
        self.assumptions = []
        self.diagnostics = {}

    def add_violation(self, key, witness):
        self.violations.setdefault(key, []).append(witness)

    def add_result(self, res, stage, exe=None, key_suffix="", key_fn=None):
        """Fold a runner.Result in; violations get `stage` recorded for replay."""
        for v in res.violations:
            w = dict(v)
            w["stage"] = stage
            if exe:
                w["exe"] = os.path.basename(exe)
            key = key_fn(v) if key_fn else v["key"]
            self.add_violation(key + key_suffix, w)
        for d in res.diags:
            self.diagnostics.setdefault(d["key"], 0)
            self.diagnostics[d["key"]] += 1
        self.harness_errors += res.harness_errors

    def finish(self, coverage, assumptions=(), min_evaluations=1):
        known = load_known(self.prop)
        os.makedirs(os.path.join(OUT, "replays"), exist_ok=True)
        os.makedirs(os.path.join(OUT, "evidence"), exist_ok=True)
        unknown = 0
        known_hits = {}
        lines = []
        for key, wits in sorted(self.violations.items()):
            ent = None
            for e in known:
                if e.get("status") == "known" and (e["key"] == key or fnmatch.fnmatchcase(key, e["key"])):
                    ent = e
                    break
            if ent is not None:
                known_hits.setdefault(ent["key"], [ent, 0])
                known_hits[ent["key"]][1] += len(wits)
                continue
            unknown += 1
            h = hashlib.sha1(key.encode()).hexdigest()[:10]
            path = os.path.join(OUT, "replays", "%s-%s.json" % (self.prop, h))
            with open(path, "w") as f:
                json.dump({"property": self.prop, "key": key, "count": len(wits), "tier": self.tier,
                           "witness": wits[0], "more": [short(w.get("detail", ""), 300) for w in wits[1:4]]},
                          f, indent=1)
            lines.append("VIOLATION property=%s replay=%s key=%s n=%d :: %s" %
                         (self.prop, path, key, len(wits), short(wits[0].get("detail", ""), 300).replace("\n", " | ")))
        for k, (ent, n) in sorted(known_hits.items()):
            print("KNOWN-FINDING: property=%s %s [key=%s, %d occurrence(s) this run]" %
                  (self.prop, ent.get("what", ""), k, n))
        for l in lines:
            print(l)
        cov = dict(coverage)
        cov.setdefault("evaluations", 0)
        cov["known_finding_hits"] = {k: n for k, (e, n) in known_hits.items()}
        cov["violation_keys"] = sorted(k for k in self.violations if k not in known_hits)
        if self.diagnostics:
            cov["diagnostics"] = self.diagnostics
        if self.inconclusive:
            cov["inconclusive"] = self.inconclusive[:20]
        status = 0
        if unknown:
            status = 1
        elif self.harness_errors:
            status = 2
            for e in self.harness_errors[:10]:
                print("HARNESS-ERROR property=%s %s" % (self.prop, short(e, 600).replace("\n", " | ")))
        elif self.inconclusive:
            status = 2
            for e in self.inconclusive[:10]:
                print("INCONCLUSIVE property=%s %s" % (self.prop, short(e, 400)))
        elif cov["evaluations"] < min_evaluations or cov.get("distinct_nontrivial", 0) < 2:
            status = 2
            print("INCONCLUSIVE property=%s observed too little: evaluations=%s distinct_nontrivial=%s" %
                  (self.prop, cov["evaluations"], cov.get("distinct_nontrivial")))
        ev = {"property_id": self.prop, "tier": self.tier, "seed": self.seed, "level": self.level,
              "coverage": cov, "assumptions": list(assumptions) + self.assumptions,
              "wall_s": round(time.time() - self.t0, 2), "violations": unknown}
        with open(os.path.join(OUT, "evidence", self.prop + ".json"), "w") as f:
            json.dump(ev, f, indent=1, sort_keys=True)
        print("%s %s tier=%s seed=%d evaluations=%d distinct_nontrivial=%d known=%d violations=%d wall=%.1fs" %
              (self.prop, {0: "HELD", 1: "VIOLATED", 2: "INCONCLUSIVE"}[status], self.tier, self.seed,
               cov["evaluations"], cov.get("distinct_nontrivial", 0), len(known_hits), unknown,
               time.time() - self.t0))
        return status
