"""Fan harness cases out over worker processes, collect what the monitors saw."""
import json, os, re, signal, subprocess, sys, time, threading, hashlib
from concurrent.futures import ThreadPoolExecutor

NCPU = int(os.environ.get("VERIF_JOBS", "16"))

ASAN_ENV = ("abort_on_error=1:detect_leaks=0:halt_on_error=1:allocator_may_return_null=1:"
            "handle_abort=0:detect_stack_use_after_return=0:print_legend=0:"
            "max_malloc_fill_size=4096:malloc_fill_byte=203:quarantine_size_mb=64")
UBSAN_ENV = "print_stacktrace=1:halt_on_error=1:abort_on_error=1"
TSAN_ENV = "halt_on_error=0:report_signal_unsafe=0:second_deadlock_stack=1:history_size=4:exitcode=66"


def base_env(extra=None):
    e = dict(os.environ)
    e["ASAN_OPTIONS"] = ASAN_ENV
    e["UBSAN_OPTIONS"] = UBSAN_ENV
    e["TSAN_OPTIONS"] = TSAN_ENV
    e["TZ"] = "UTC"
    e.setdefault("LC_ALL", "C")
    if extra:
        for k, v in extra.items():
            if k in ("ASAN_OPTIONS", "TSAN_OPTIONS", "UBSAN_OPTIONS") and v.startswith("+"):
                e[k] = e[k] + ":" + v[1:]
            else:
                e[k] = v
    return e


class Result:
    def __init__(self):
        self.violations = []   # dicts: key, case, seed, detail, desc, args
        self.diags = []
        self.counters = {}
        self.ismax = set()
        self.distinct = set()
        self.dist_over = 0
        self.samples = []
        self.harness_errors = []
        self.evaluations = 0
        self.hangs = []
        self.sanitizer_reports = 0
        self.tsan_reports = []

    def merge_counters(self, c):
        for k, (v, is_max) in c.items():
            if is_max:
                self.ismax.add(k)
                self.counters[k] = max(self.counters.get(k, v), v)
            else:
                self.counters[k] = self.counters.get(k, 0) + v

    def absorb(self, other):
        self.violations += other.violations
        self.diags += other.diags
        for k, v in other.counters.items():
            if k in other.ismax:
                self.ismax.add(k)
                self.counters[k] = max(self.counters.get(k, v), v)
            else:
                self.counters[k] = self.counters.get(k, 0) + v
        self.distinct |= other.distinct
        self.dist_over += other.dist_over
        self.samples += other.samples
        self.harness_errors += other.harness_errors
        self.evaluations += other.evaluations
        self.hangs += other.hangs
        self.sanitizer_reports += other.sanitizer_reports
        self.tsan_reports += other.tsan_reports


_FRAME = re.compile(r"^\s*#(\d+) (?:0x[0-9a-f]+ in )?(\S+) (\S+?)(?::(\d+))?(?::\d+)?(?: \(\S+\))?\s*$")


def parse_sanitizer(stderr, repo=os.environ.get("VERIF_REPO", "/repo")):
    """Return (kind, function, summary_text) of the first ASan/UBSan/SEGV report or None."""
    lines = stderr.splitlines()
    kind = None
    start = None
    access = ""
    for i, l in enumerate(lines):
        m = re.search(r"ERROR: AddressSanitizer: ([\w-]+)", l)
        if m:
            kind = "asan:" + m.group(1)
            start = i
            break
        m = re.search(r"ERROR: LeakSanitizer", l)
        if m:
            kind = "lsan:leak"
            start = i
            break
        m = re.search(r"^(\S+?):(\d+):(\d+): runtime error: (.*)$", l)
        if m:
            what = m.group(4)
            k = "bounds" if "out of bounds" in what else what.split()[0]
            kind = "ubsan:" + k
            start = i
            break
    if kind is None:
        return None
    func = None
    first = None
    for l in lines[start:start + 60]:
        if re.match(r"^(READ|WRITE) of size", l.strip()):
            access = l.strip().split()[0]
        m = _FRAME.match(l)
        if not m:
            if func and not l.strip():
                break
            continue
        fn, path = m.group(2), m.group(3)
        if first is None and not fn.startswith("__interceptor") and "sanitizer" not in path:
            first = fn
        if (repo + "/lib/") in path or (repo + "/include/") in path:
            func = fn
            break
    func = func or first or "unknown"
    text = "\n".join(lines[start:start + 40])
    k = kind + (":" + access if access else "") + ":" + func
    if "use-after-free" in kind:
        # where was it freed?  (innermost libqb function of the 'freed by' stack)
        fr = None
        for i, l in enumerate(lines[start:start + 80]):
            if l.startswith("freed by"):
                for l2 in lines[start + i + 1:start + i + 12]:
                    m = _FRAME.match(l2)
                    if not m:
                        break
                    if (repo + "/lib/") in m.group(3) or (repo + "/include/") in m.group(3):
                        fr = m.group(2)
                        break
                break
        k += ":freed-in:" + (fr or "unknown")
    return k, func, text


_TSAN_HDR = re.compile(r"WARNING: ThreadSanitizer: ([^(]+)\(pid")


def parse_tsan(stderr, repo=os.environ.get("VERIF_REPO", "/repo")):
    """Split ThreadSanitizer reports; key = kind + sorted pair of innermost libqb functions."""
    out = []
    blocks = stderr.split("==================")
    for b in blocks:
        m = _TSAN_HDR.search(b)
        if not m:
            continue
        kind = m.group(1).strip().replace(" ", "-")
        funcs = []
        cur = None
        for l in b.splitlines():
            if re.match(r"^\s*(Write|Read|Previous|Atomic|Mutex|Location|Thread)", l.strip()) or \
               re.match(r"^\s*(Previous )?(atomic )?(write|read) of size", l.strip(), re.I):
                cur = []
                funcs.append(cur)
            fm = _FRAME.match(l)
            if fm and cur is not None:
                cur.append((fm.group(2), fm.group(3)))
        tops = []
        for st in funcs[:2]:
            top = None
            for fn, path in st:
                if (repo + "/lib/") in path or (repo + "/include/") in path:
                    top = fn
                    break
            if top is None and st:
                top = st[0][0]
            if top:
                tops.append(top)
        key = "tsan:%s:%s" % (kind, "+".join(sorted(tops)) or "unknown")
        out.append((key, b.strip()[:3000]))
    return out


def _run_chunk(exe, seed, a, b, args, env, timeout, tsan):
    """Run cases [a,b); restart behind a crashing case.  Returns Result."""
    r = Result()
    cur = a
    guard = 0
    while cur < b and guard < 64:
        guard += 1
        cmd = [exe, "--seed", str(seed), "--from", str(cur), "--to", str(b)] + list(args)
        t0 = time.time()
        p = subprocess.Popen(cmd, stdout=subprocess.PIPE, stderr=subprocess.PIPE, env=env,
                             start_new_session=True)
        hung = False
        try:
            out, err = p.communicate(timeout=timeout)
        except subprocess.TimeoutExpired:
            hung = True
            try:
                os.kill(p.pid, signal.SIGABRT)
            except ProcessLookupError:
                pass
            try:
                out, err = p.communicate(timeout=10)
            except subprocess.TimeoutExpired:
                try:
                    os.killpg(p.pid, signal.SIGKILL)
                except ProcessLookupError:
                    pass
                out, err = p.communicate()
        try:
            os.killpg(p.pid, signal.SIGKILL)   # stray children of the harness
        except (ProcessLookupError, PermissionError):
            pass
        out = out.decode("utf-8", "replace")
        err = err.decode("utf-8", "replace")
        got_s = False
        for line in out.splitlines():
            if line.startswith("V "):
                try:
                    v = json.loads(line[2:])
                except ValueError:
                    r.harness_errors.append("bad V line: " + line[:200])
                    continue
                v["args"] = list(args)
                r.violations.append(v)
            elif line.startswith("D "):
                try:
                    r.diags.append(json.loads(line[2:]))
                except ValueError:
                    pass
            elif line.startswith("S "):
                try:
                    s = json.loads(line[2:])
                except ValueError:
                    r.harness_errors.append("bad S line")
                    continue
                got_s = True
                r.merge_counters(s["counters"])
                r.distinct |= set(s["distinct"])
                r.dist_over += s.get("dist_over", 0)
                r.samples += s["samples"]
        if tsan:
            reps = parse_tsan(err)
            for key, text in reps:
                r.tsan_reports.append({"key": key, "text": text, "from": cur, "to": b, "seed": seed,
                                       "args": list(args)})
        rc = p.returncode
        if got_s and (rc == 0 or (tsan and rc == 66)):
            r.evaluations += b - cur
            return r
        # the process died: find the case it was in
        m = None
        for m in re.finditer(r"VP-CASE (-?\d+) (\w+) \| ?(.*)", err):
            pass
        if m is None:
            r.harness_errors.append("harness %s died rc=%s without case marker [%d,%d): %s" %
                                    (os.path.basename(exe), rc, cur, b, err[-1500:]))
            return r
        kase = int(m.group(1))
        why = m.group(2)
        desc = m.group(3)
        if hung:
            r.hangs.append({"key": "hang", "case": kase, "seed": seed, "detail": "no progress within %ds" % timeout,
                            "desc": desc, "args": list(args)})
        else:
            san = parse_sanitizer(err)
            if san:
                key, func, text = san
                r.sanitizer_reports += 1
                r.violations.append({"key": key, "case": kase, "seed": seed, "detail": text, "desc": desc,
                                     "args": list(args)})
            else:
                am = re.search(r"Assertion `(.*)' failed", err)
                key = "abort:" + (re.sub(r"\W+", "_", am.group(1))[:60] if am else why)
                r.violations.append({"key": key, "case": kase, "seed": seed, "detail": err[-1500:], "desc": desc,
                                     "args": list(args)})
        r.evaluations += max(0, kase - cur + 1)
        # a case that did not finish: the rest of this chunk is not attempted (every further stuck case costs a whole
        # watchdog period and cannot change the verdict)
        if hung or any(str(v.get("key", "")).startswith(("hang:", "logt:case-does-not-finish")) for v in r.violations):
            return r
        if kase < cur:
            r.harness_errors.append("case marker %d before chunk start %d" % (kase, cur))
            return r
        cur = kase + 1
    return r


def run_cases(exe, seed, total, args=(), env=None, workers=None, chunk=None, timeout=300, tsan=False,
              first=0):
    """Run cases [first, first+total) of harness `exe` over worker processes."""
    workers = workers or NCPU
    env = base_env(env)
    if chunk is None:
        chunk = max(1, (total + workers * 4 - 1) // (workers * 4))
    chunks = [(a, min(first + total, a + chunk)) for a in range(first, first + total, chunk)]
    res = Result()
    # Cases that do not finish are the expensive kind of violation (each one costs a watchdog period).  Once a handful
    # has been seen the verdict cannot change any more: the chunks not started yet are skipped.  Nothing of this happens
    # on a tree where every case finishes.
    state = {"stuck": 0, "skipped": 0}
    limit = int(os.environ.get("VERIF_STUCK_LIMIT", "8"))

    def one(ab):
        if state["stuck"] >= limit:
            state["skipped"] += 1
            return Result()
        r = _run_chunk(exe, seed, ab[0], ab[1], args, env, timeout, tsan)
        state["stuck"] += len(r.hangs) + sum(1 for v in r.violations
                                              if str(v.get("key", "")).startswith(("hang:", "logt:case-does-not-finish")))
        return r

    with ThreadPoolExecutor(workers) as ex:
        for r in ex.map(one, chunks):
            res.absorb(r)
    if state["skipped"]:
        res.diags.append({"key": "runner:stopped-early", "detail": "%d chunks skipped after %d cases that did not finish"
                          % (state["skipped"], state["stuck"])})
    return res
