"""Build libqb flavours and harness binaries straight from /repo's working tree.

Nothing from /repo's own autotools build is used.  Every flavour is rebuilt
whenever a hash over its flags and the contents of /repo/lib, /repo/include
changes (plain make would ignore flag changes).
"""
import hashlib, os, subprocess, sys, shutil, fcntl
from concurrent.futures import ThreadPoolExecutor

REPO = os.environ.get("VERIF_REPO", "/repo")
VERIF = os.path.dirname(os.path.dirname(os.path.abspath(__file__)))
BUILD = os.path.join(VERIF, ".build") if REPO == "/repo" else \
    os.path.join("/tmp", "vp-build-" + hashlib.sha1(REPO.encode()).hexdigest()[:10])
GUARD = "QB_VERIF"

SOURCES = ("util hdb ringbuffer ringbuffer_helper array loop loop_poll loop_job "
           "loop_timerlist ipcc ipcs ipc_shm ipc_socket ipc_setup map skiplist "
           "hashtable trie log log_thread log_blackbox log_file log_syslog log_dcs "
           "log_format unix loop_poll_epoll strlcpy strlcat").split()

COMMON = ["-D_GNU_SOURCE", "-DHAVE_CONFIG_H", "-D" + GUARD, "-g", "-fno-omit-frame-pointer",
          "-pthread", "-w"]

ASAN = ["-fsanitize=address", "-fsanitize=bounds", "-fno-sanitize-recover=all",
        "-fno-common"]
TSAN = ["-fsanitize=thread"]
TSANV = TSAN + ["--param", "tsan-distinguish-volatile=1"]   # ring files: volatile accesses get their own ABI

FLAVOURS = {
    # name: (cflags for libqb objects, per-file override dict, link flags)
    "asan": (["-O1"] + ASAN, {}, ASAN),
    "tsan": (["-O1"] + TSAN, {"ringbuffer": ["-O1"] + TSANV, "ringbuffer_helper": ["-O1"] + TSANV},
             ["-fsanitize=thread"]),
    "plain": (["-O2"], {}, []),
    # controlled scheduler: only the ring files carry TSan instrumentation
    # (as yield points); linked WITHOUT libtsan against harness/vpsched.c
    "sched": (["-O1"], {"ringbuffer": ["-O1"] + TSANV, "ringbuffer_helper": ["-O1"] + TSANV}, []),
}


def _incdirs():
    inc = [os.path.join(REPO, "include"), os.path.join(REPO, "include", "qb"),
           os.path.join(REPO, "lib")]
    flags = []
    # config.h / qbconfig.h: from /repo when configured, else the snapshot
    if not (os.path.exists(os.path.join(REPO, "include", "config.h")) and
            os.path.exists(os.path.join(REPO, "include", "qb", "qbconfig.h"))):
        cfg = os.path.join(VERIF, "build", "cfg")
        os.makedirs(os.path.join(BUILD, "cfginc", "qb"), exist_ok=True)
        shutil.copy(os.path.join(cfg, "config.h"), os.path.join(BUILD, "cfginc", "config.h"))
        shutil.copy(os.path.join(cfg, "qbconfig.h"), os.path.join(BUILD, "cfginc", "qb", "qbconfig.h"))
        inc = [os.path.join(BUILD, "cfginc"), os.path.join(BUILD, "cfginc", "qb")] + inc
    for d in inc:
        flags += ["-I", d]
    return flags


def _tree_hash():
    h = hashlib.sha256()
    for sub in ("lib", "include", os.path.join("include", "qb")):
        d = os.path.join(REPO, sub)
        for fn in sorted(os.listdir(d)):
            if fn.endswith((".c", ".h")):
                p = os.path.join(d, fn)
                h.update(fn.encode())
                with open(p, "rb") as f:
                    h.update(f.read())
    return h.hexdigest()


_tree_hash_cache = None


def tree_hash():
    global _tree_hash_cache
    if _tree_hash_cache is None:
        _tree_hash_cache = _tree_hash()
    return _tree_hash_cache


class BuildError(Exception):
    pass


def _run(cmd):
    p = subprocess.run(cmd, stdout=subprocess.PIPE, stderr=subprocess.STDOUT, text=True)
    if p.returncode != 0:
        raise BuildError("command failed: %s\n%s" % (" ".join(cmd), p.stdout[-4000:]))


def flavour(name):
    """Build (if stale) and return path of the static archive of a flavour."""
    cflags, per_file, _ = FLAVOURS[name]
    os.makedirs(BUILD, exist_ok=True)
    outdir = os.path.join(BUILD, name)
    lockf = open(os.path.join(BUILD, name + ".lock"), "w")
    fcntl.flock(lockf, fcntl.LOCK_EX)
    try:
        key = hashlib.sha256((tree_hash() + repr((COMMON, cflags, sorted(per_file.items()))))
                             .encode()).hexdigest()
        stamp = os.path.join(outdir, "stamp")
        lib = os.path.join(outdir, "libqb.a")
        if os.path.exists(stamp) and os.path.exists(lib) and open(stamp).read() == key:
            return lib
        shutil.rmtree(outdir, ignore_errors=True)
        os.makedirs(outdir)
        inc = _incdirs()

        def cc(src):
            fl = per_file.get(src, cflags)
            o = os.path.join(outdir, src + ".o")
            _run(["gcc"] + COMMON + fl + inc + ["-c", os.path.join(REPO, "lib", src + ".c"), "-o", o])
            return o
        with ThreadPoolExecutor(16) as ex:
            objs = list(ex.map(cc, SOURCES))
        _run(["ar", "rcs", lib] + objs)
        with open(stamp, "w") as f:
            f.write(key)
        return lib
    finally:
        fcntl.flock(lockf, fcntl.LOCK_UN)
        lockf.close()


def harness(name, flav, sources, extra_cflags=(), extra_ldflags=(), wraps=(), instrument=True,
            outname=None, plain_sources=()):
    """Compile harness `name` from /verif/harness/<sources> against flavour `flav`.

    instrument=False compiles the harness sources without the sanitizer flags of
    the flavour (still linked with its runtime)."""
    lib = flavour(flav)
    cflags, _, ldflags = FLAVOURS[flav]
    hdir = os.path.join(VERIF, "harness")
    srcs = [s if os.path.isabs(s) else os.path.join(hdir, s) for s in sources]
    psrcs = [s if os.path.isabs(s) else os.path.join(hdir, s) for s in plain_sources]
    h = hashlib.sha256()
    h.update(open(os.path.join(os.path.dirname(lib), "stamp")).read().encode())
    h.update(repr((flav, list(extra_cflags), list(extra_ldflags), list(wraps), instrument)).encode())
    deps = list(srcs) + list(psrcs) + [os.path.join(hdir, f) for f in sorted(os.listdir(hdir)) if f.endswith((".h", ".inc"))]
    for s in deps:
        with open(s, "rb") as f:
            h.update(s.encode())
            h.update(f.read())
    key = h.hexdigest()
    outdir = os.path.join(BUILD, "bin")
    os.makedirs(outdir, exist_ok=True)
    exe = os.path.join(outdir, "%s.%s" % (outname or name, flav))
    lockf = open(exe + ".lock", "w")
    fcntl.flock(lockf, fcntl.LOCK_EX)
    try:
        if os.path.exists(exe) and os.path.exists(exe + ".stamp") and open(exe + ".stamp").read() == key:
            return exe
        base = (cflags if instrument else ["-O1"])
        pobjs = []
        for ps in psrcs:   # translation units that must stay invisible to the sanitizer (e.g. the scheduler)
            po = exe + "." + os.path.basename(ps) + ".o"
            _run(["gcc"] + COMMON + ["-O1"] + list(extra_cflags) + _incdirs() + ["-I", hdir, "-c", ps, "-o", po])
            pobjs.append(po)
        cmd = (["gcc"] + COMMON + base + list(extra_cflags) + _incdirs() + ["-I", hdir] + srcs + pobjs +
               [lib] + ldflags + ["-Wl,--wrap=%s" % w for w in wraps] + list(extra_ldflags) +
               ["-lpthread", "-lrt", "-ldl", "-lm", "-o", exe + ".tmp"])
        _run(cmd)
        os.replace(exe + ".tmp", exe)
        with open(exe + ".stamp", "w") as f:
            f.write(key)
        return exe
    finally:
        fcntl.flock(lockf, fcntl.LOCK_UN)
        lockf.close()


if __name__ == "__main__":
    import time
    for fl in (sys.argv[1:] or list(FLAVOURS)):
        t = time.time()
        print(fl, flavour(fl), "%.1fs" % (time.time() - t))
