"""Boilerplate for checks that are 'run these harness stages over N cases'."""
from vplib import runner, report


class Stage:
    def __init__(self, name, builder, args=(), quick=1000, thorough=100000, tsan=False, env=None, timeout=600,
                 workers=None, chunk=None, key_suffix="", key_fn=None):
        self.name, self.builder, self.args = name, builder, list(args)
        self.quick, self.thorough, self.tsan, self.env, self.timeout = quick, thorough, tsan, env, timeout
        self.workers, self.chunk, self.key_suffix, self.key_fn = workers, chunk, key_suffix, key_fn


def run_stages(prop, tier, seed, scale, stages, rule, assumptions=(), level="exploration", extra_cov=None,
               tsan_filter=None, post=None):
    v = report.Verdict(prop, tier, seed, level)
    total = runner.Result()
    per_stage = {}
    want = 0
    for st in stages:
        exe = st.builder()
        n = max(1, int((st.quick if tier == "quick" else st.thorough) * scale))
        want += n
        res = runner.run_cases(exe, seed, n, args=st.args, env=st.env, timeout=st.timeout, tsan=st.tsan,
                               workers=st.workers, chunk=st.chunk)
        v.add_result(res, st.name, exe, st.key_suffix, st.key_fn)
        for h in res.hangs:
            h = dict(h)
            h["stage"] = st.name
            v.add_violation("hang:" + st.name, h)
        for t in res.tsan_reports:
            key = t["key"]
            if tsan_filter and tsan_filter(t):
                v.diagnostics[key] = v.diagnostics.get(key, 0) + 1
                continue
            v.add_violation(key, {"stage": st.name, "detail": t["text"], "seed": seed, "case": t["from"],
                                  "to": t["to"], "args": t["args"], "exe": exe})
        per_stage[st.name] = {"cases": res.evaluations, "counters": dict(res.counters),
                              "distinct": len(res.distinct), "sanitizer_reports": res.sanitizer_reports,
                              "tsan_reports": len(res.tsan_reports)}
        total.absorb(res)
    cov = {
        "evaluations": total.evaluations,
        "distinct_nontrivial": len(total.distinct),
        "rule": rule,
        "samples": total.samples[:8],
        "stages": per_stage,
        "sanitizer_reports": total.sanitizer_reports,
    }
    if total.dist_over:
        cov["distinct_table_overflow"] = total.dist_over
    if extra_cov:
        cov.update(extra_cov)
    if post:
        post(v, total, cov)
    return v.finish(cov, assumptions=assumptions, min_evaluations=want // 2)


def replay(rep, stages):
    w = rep["witness"]
    st = None
    for s in stages:
        if s.name == w.get("stage"):
            st = s
    if st is None:
        st = stages[0]
    exe = st.builder()
    n = 1
    if "to" in w:
        n = max(1, w["to"] - w["case"])
    res = runner.run_cases(exe, w["seed"], n, args=w.get("args", st.args), first=w["case"], workers=1,
                           tsan=st.tsan, env=st.env, timeout=st.timeout)
    keys = set()
    for x in res.violations:
        print("REPLAY", x["key"], x["detail"][:500].replace("\n", " | "))
        keys.add((st.key_fn(x) if st.key_fn else x["key"]) + st.key_suffix)
    for x in res.hangs:
        keys.add("hang:" + st.name)
    for t in res.tsan_reports:
        print("REPLAY", t["key"])
        keys.add(t["key"])
    hit = rep["key"] in keys
    print("replay: %s" % ("reproduced" if hit else "not reproduced (keys seen: %s)" % sorted(keys)))
    return 1 if hit else 0
